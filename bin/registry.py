"""Per-property configuration of bin/check: bounded models (mc), TLC case generators (gen) whose
cases are driven through the real crate, seeded scenarios, required coverage classes (vacuity)."""

TV_ASSUME = [
    "TLC 1.8.0 and the Java override verifx.ExactQ (validated against the pure TLA+ reference by MC_ExactQ)",
    "the harness records arguments and results faithfully (it never judges)",
    "inputs inside the driver envelope of DESIGN 2.4 (no overflow / subnormals)",
]

PROPS = {
    "C01": {
        "title": "Linear returns the exact piecewise-linear interpolant",
        "mc": [],
        "gen": [],
        "scenarios": ["linear"],
        "require_cov": [r"^EL\|Linear\|f64\|knot$", r"^EL\|Linear\|f64\|inner$", r"^EL\|Linear\|f32\|knot$", r"^EL\|Linear\|f32\|inner$"],
        "cov_report": [r"Linear"],
        "technique": "TLA+ trace validation with an exact-rational reference (TLC judges every recorded call)",
        "level_text": "every recorded Linear query is compared by TLC with the exact rational value of the bracketing line within the C01 rounding band",
        "assumptions": TV_ASSUME,
    },
    "C02": {
        "title": "Cubic spline passes through the data and is a C2 piecewise cubic",
        "scenarios": ["spline", "periodic"],
        "require_cov": [r"^EL\|Spline\|f64\|knot$", r"^EL\|Spline\|f64\|inner$", r"^EL\|Spline\|f32\|inner$", r"^BC\|Periodic\|n5", r"^BC\|Periodic\|n4", r"^BC\|NotAKnot-NotAKnot\|n5"],
        "cov_report": [r"Spline", r"^BC"],
        "technique": "TLA+ trace validation against the certified exact spline (moment formulation, certificate checked by TLC per build)",
        "level_text": "every recorded spline query is compared by TLC with the unique C2 piecewise cubic, which the specification computes exactly and certifies (interpolation, C1, C2, end conditions as exact equalities) for every recorded build",
        "assumptions": TV_ASSUME,
    },
    "C03": {
        "title": "Cubic spline honours the selected boundary conditions",
        "scenarios": ["spline", "periodic"],
        "require_cov": [r"^BC\|NotAKnot-NotAKnot\|n3", r"^BC\|NotAKnot-NotAKnot\|n4", r"^BC\|NotAKnot-NotAKnot\|n5", r"^BC\|Periodic\|n3", r"^BC\|Periodic\|n5",
                        r"^BC\|FirstDeriv-NotAKnot", r"^BC\|SecondDeriv-NotAKnot", r"^BC\|NotAKnot-FirstDeriv", r"^BC\|NotAKnot-SecondDeriv",
                        r"^BC\|FirstDeriv-SecondDeriv", r"^BC\|SecondDeriv-FirstDeriv", r"^BC\|FirstDeriv-FirstDeriv", r"^BC\|SecondDeriv-SecondDeriv"],
        "cov_report": [r"Spline", r"^BC"],
        "technique": "TLA+ trace validation against the certified exact spline built with each lane's own end conditions",
        "level_text": "as C02; the reference is built with the end conditions selected for each lane (all ordered pairs, Periodic, per-lane arrays) and certified exactly, so any deviation from the selected condition larger than the rounding band shows as a value mismatch",
        "assumptions": TV_ASSUME,
    },
    "C16": {
        "title": "Polynomials of the strategy's degree are reproduced exactly",
        "scenarios": ["poly"],
        "require_cov": [r"^POLY\|Spline", r"^BC\|NotAKnot-NotAKnot\|n4", r"^EL\|Spline\|f64\|extrap"],
        "cov_report": [r"POLY", r"Spline", r"^BC"],
        "technique": "TLA+ trace validation with a per-build exact certificate that the reference interpolant IS the sampled polynomial",
        "level_text": "for data sampled from a polynomial TLC verifies exactly that the samples and boundary values come from it and that the certified reference coincides with it piecewise, then compares every recorded query with the polynomial's value",
        "assumptions": TV_ASSUME,
    },
    "C07": {
        "title": "A periodic spline with extrapolation is a periodic function",
        "scenarios": ["periodic"],
        "require_cov": [r"^EL\|Spline\|f64\|wrap$", r"^EL\|Spline\|f32\|wrap$", r"^BC\|Periodic\|n3"],
        "cov_report": [r"Spline", r"^BC\|Periodic"],
        "technique": "TLA+ trace validation: exact wrap by whole periods (QFloor) into the certified periodic spline",
        "level_text": "every recorded query of a periodic spline outside the range is compared by TLC with the certified spline at the exactly wrapped argument, with the rounding allowance for the wrapped argument stated in the specification",
        "assumptions": TV_ASSUME,
    },
    "C04": {
        "title": "Bilinear returns the exact bilinear blend of the cell",
        "scenarios": ["bilinear"],
        "require_cov": [r"^EL\|Bilinear\|f64\|node$", r"^EL\|Bilinear\|f64\|edge$", r"^EL\|Bilinear\|f64\|inner$", r"^EL\|Bilinear\|f32\|inner$", r"^POLY\|Bilinear"],
        "cov_report": [r"Bilinear"],
        "technique": "TLA+ trace validation with the exact rational bilinear form of the bracketing cell (TLC judges every recorded call)",
        "level_text": "every recorded Bilinear query (nodes, edges, cell interiors, transposed twins, non-square grids, all lanes) is compared by TLC with the exact bilinear blend of the four surrounding grid values within the C04 rounding band",
        "assumptions": TV_ASSUME,
    },
    "C05": {
        "title": "Without extrapolation a query is answered iff it lies in the closed axis range",
        "scenarios": ["entries", "linear", "bilinear", "periodic"],
        "require_cov": [r"^Q1\|Linear\|array\|Err:OutOfBounds", r"^Q1\|Spline\|array_into\|Err:OutOfBounds", r"^Q1\|Linear\|into\|Err:OutOfBounds",
                        r"^Q2\|Bilinear\|interp\|Err:OutOfBounds", r"^Q1\|Linear\|interp\|Ok"],
        "cov_report": [r"^Q[12]\|"],
        "technique": "TLA+ trace validation: outcome of every recorded call against the closed-range predicate on exact values (IEEE semantics for NaN / infinities)",
        "level_text": "for every recorded call with extrapolation off TLC decides from the logged axis and query bit patterns whether all elements lie in the closed range and requires Ok exactly then and Err(OutOfBounds) otherwise, on every entry point and batch position",
        "assumptions": TV_ASSUME,
    },
    "C06": {
        "title": "Extrapolation continues the end polynomial and never rejects a finite query",
        "scenarios": ["linear", "spline", "bilinear"],
        "require_cov": [r"^EL\|Linear\|f64\|extrap$", r"^EL\|Spline\|f64\|extrap$", r"^EL\|Bilinear\|f64\|extrap-x$", r"^EL\|Bilinear\|f64\|extrap-y$", r"^EL\|Bilinear\|f64\|extrap-xy$"],
        "cov_report": [r"extrap", r"^Q[12]\|"],
        "technique": "TLA+ trace validation: end piece of the exact reference evaluated outside the range; functional-dependence memo for bit-identity of in-range results with the non-extrapolating twin",
        "level_text": "every recorded extrapolating query must be Ok and within the tau-scaled band of the exact end line / end cubic / border-cell form; in-range results of twins built with the flag on and off must have identical bits (memo keyed without the flag)",
        "assumptions": TV_ASSUME,
    },
    "C09": {
        "title": "All query entry points agree and results have shape query ++ trailing data dims",
        "scenarios": ["entries"],
        "require_cov": [r"^RANK\|array\|Ix0", r"^RANK\|array\|Ix4", r"^RANK\|array_into\|IxDyn\|q3", r"^RANK\|array\|IxDyn\|q1", r"^RANK\|array\|Ix3\|q3\|d6", r"^Q2\|Bilinear\|array_into\|Ok", r"^Q1\|Custom\|array\|Ok", r"^Q1\|Linear\|scalar\|Ok"],
        "cov_report": [r"^RANK", r"^Q[12]\|"],
        "technique": "TLA+ trace validation: result shape = OutShape(query, data) and element-to-query correspondence decided by the spec; functional-dependence memo (object, lane, query) -> bits across all entry points",
        "level_text": "for every recorded call TLC checks the result shape against OutShape and that the element at row-major position (i, lane) is the value for query i; the memo requires identical bits for the same (interpolator, lane, query) whatever entry point, query rank or static/dynamic dimension type produced it",
        "assumptions": TV_ASSUME,
    },
    "C13": {
        "title": "Results do not depend on the memory layout or ownership of any array argument",
        "scenarios": ["layouts"],
        "require_cov": [r"^Q1\|Linear\|array_into\|Ok", r"^Q1\|Spline\|array_into\|Ok", r"^Q2\|Bilinear\|array_into\|Ok"],
        "cov_report": [r"^Q[12]\|", r"^B[12]\|"],
        "technique": "TLA+ trace validation: the specification state has no layout; memo keyed by logical contents demands identical bits, and a correctly shaped buffer must be accepted whatever its strides",
        "level_text": "the same logical data / axes / queries / buffers are realised as owned C and F arrays, views, strided, reversed, permuted and window views; TLC requires Ok for every correctly shaped buffer and identical result bits for identical logical contents",
        "assumptions": TV_ASSUME,
    },
    "C14": {
        "title": "*_into calls fill exactly the caller's buffer or reject a wrongly shaped one",
        "scenarios": ["buffers"],
        "require_cov": [r"^Q1\|Linear\|array_into\|Panic", r"^Q1\|Linear\|into\|Panic", r"^Q2\|Bilinear\|array_into\|Panic", r"^Q2\|Bilinear\|array\|Panic", r"^Q1\|Linear\|array_into\|Ok"],
        "cov_report": [r"^Q[12]\|"],
        "technique": "TLA+ trace validation: the spec does the address arithmetic of the buffer window over the logged backing allocation (before / after) and compares the window with the allocating variant through the memo",
        "level_text": "for every recorded *_into call TLC checks: wrong buffer shape (each axis -1/+1, permutations, merged axes, wrong rank) or x/y query shape mismatch never gives Ok; on Ok every window cell holds the allocating variant's bits and every cell outside the window is untouched",
        "assumptions": TV_ASSUME,
    },
    "C18": {
        "title": "Custom strategies get validated inputs, correct targets, faithful accessors",
        "scenarios": ["custom"],
        "require_cov": [r"^B1\|Custom\|Err:NotEnoughData", r"^B1\|Custom\|Err:ValueError", r"^B2\|Custom\|Ok", r"^Q1\|Custom\|array\|Err:OutOfBounds", r"^Q2\|Custom\|array_into\|Err:OutOfBounds", r"^ACC\|point\|1D", r"^ACC\|range\|2D"],
        "cov_report": [r"Custom", r"^ACC"],
        "technique": "TLA+ trace validation of the call protocol observed by recording / failing strategies (call-backs nested in the recorded public call)",
        "level_text": "TLC checks for every recorded build / query with a recording strategy: the builder is invoked once iff the inputs pass validation and sees them unmodified; interp_into sees exactly the multiset of query values and a target of the required shape, results land in the right cells, accessors return axis[i] / data[i] / closed-range / bracket, strategy errors reach the caller with their token",
        "assumptions": TV_ASSUME,
    },
    "C19": {
        "title": "The unchecked type cast of the 1-D fast path only ever relabels identical types",
        "scenarios": ["casts", {"name": "casts_mixed", "crash_is_violation": "C19|fast-path|process-died-behind-an-unchecked-cast"}],
        "require_cov": [r"^CAST\|Q1\|Ix1\|n2", r"^CAST\|Q2\|Ix1\|n3", r"^NOCAST\|Q1\|IxDyn", r"^EL\|Linear\|i32", r"^EL\|Bilinear\|i64", r"^EL\|Linear\|f32"],
        "cov_report": [r"CAST", r"^B[12]\|"],
        "technique": "TLA+ trace validation of hook events: every executed cast_unchecked logs type names, sizes, alignments; memo ties the Ix1 fast path to the IxDyn general path bit-for-bit",
        "level_text": "the harness instantiates the type table (data Ix1..Ix6/IxDyn x query Ix0..Ix3/IxDyn x owned/view/shared x f64/f32/i32/i64 x 1-D/2-D); TLC requires identical source and destination type (name, size, alignment) at every executed cast and identical result bits for the same query sent as Ix1 and as dynamic rank 1",
        "assumptions": TV_ASSUME + ["'undefined behaviour' itself is not observable; identical type name + size + alignment at every executed cast is the observable the property names"],
    },
    "C08": {
        "title": "Every lane of n-dimensional data is interpolated independently",
        "scenarios": ["lanes"],
        "require_cov": [r"^EL\|Spline\|f64\|nonfinite-lane", r"^EL\|Linear\|f64\|inner", r"^EL\|Bilinear\|f64\|", r"^BC\|"],
        "cov_report": [r"^EL\|", r"^B[12]\|"],
        "technique": "TLA+ trace validation: per-lane exact reference (accuracy) + functional-dependence memo keyed by the lane's own contents, boundary, trailing shape and index",
        "level_text": "for every base data set the other lanes are replaced (random, huge, NaN, +-inf) and their boundary conditions rotated; TLC requires the bits of lane j to stay identical (memo) and to match the exact reference computed from lane j alone, also for single-lane interpolators",
        "assumptions": TV_ASSUME,
    },
    "C10": {
        "title": "build() accepts exactly the valid inputs and reports the rest as BuilderError",
        "scenarios": ["builder", "custom"],
        "require_cov": [r"^B1\|Linear\|Err:Monotonic", r"^B1\|Spline\|Err:NotEnoughData", r"^B1\|Spline\|Err:ShapeError", r"^B1\|Spline\|Err:ValueError", r"^B2\|Bilinear\|Err:ShapeError",
                        r"^B2\|Bilinear\|Err:Monotonic", r"^B2\|Bilinear\|Err:NotEnoughData", r"^B1\|Custom\|Ok", r"^BLOW\|1D-rank0-dyn", r"^BLOW\|2D-rank1-static-new"],
        "cov_report": [r"^B[12]\|", r"^BLOW"],
        "technique": "TLA+ trace validation: Valid / ViolatedKinds recomputed by the spec from the logged concrete inputs for every recorded build of the decision table",
        "level_text": "the harness realises the decision table (rank, length vs minimum, axis length -1/0/+1, order patterns incl. NaN / tie / swap at several positions, boundary-array shapes, periodic ends, x and y independently, simultaneous violations); TLC requires Ok iff Valid, an error kind among the violated requirements otherwise, never a panic",
        "assumptions": TV_ASSUME,
    },
    "C11": {
        "title": "Segment lookup returns the bracketing interval for every axis and query",
        "scenarios": ["lower"],
        "require_cov": [r"^LOWER\|f64\|GuessHit\|inside", r"^LOWER\|f64\|Search\|inside", r"^LOWER\|f64\|ClampLo", r"^LOWER\|f64\|ClampHi", r"guess-last", r"^LOWER\|i64", r"^LOWER\|i32", r"^LOWERLEN\|gt1000", r"^ACC\|range"],
        "cov_report": [r"^LOWER", r"^ACC"],
        "technique": "TLA+ trace validation against the declarative bracket predicate on exact values; cases (length, guess, rank) enumerated exhaustively",
        "level_text": "every (length <= bound, initial-guess position, rank of the query) combination is realised on a real axis (the guess actually taken is confirmed through the lookup hook), plus random axes of every spacing class up to 10^4 knots and integer axes; TLC requires the returned index to satisfy the declarative bracket predicate and never a panic",
        "assumptions": TV_ASSUME,
    },
    "C12": {
        "title": "monotonic_prop classifies every vector correctly and never calls NaN data rising",
        "scenarios": ["mono"],
        "require_cov": [r"^MONO\|f64\|C\|Rising:1", r"^MONO\|.*\|Rising:0", r"^MONO\|.*\|Falling:1", r"^MONO\|.*\|Falling:0", r"^MONO\|.*\|NotMonotonic", r"^MONO\|f64\|.*\|NaN", r"^MONO\|i32", r"^MONO\|i64\|Strided", r"^MONO\|f32\|Rev"],
        "cov_report": [r"^MONO"],
        "technique": "TLA+ trace validation: the declarative class is computed by the spec from the logged values of every vector; all relation words up to the bound are enumerated",
        "level_text": "every sequence of pair relations over {<,=,>} up to 9 (quick) / 13 (thorough) pairs and every NaN placement up to 6 / 8 pairs is realised as f64 / f32 / i32 / i64 vectors (unit, 1-ulp, huge steps; contiguous, strided, reversed views); TLC recomputes the class from the logged values and requires equality, and never Rising for NaN vectors",
        "assumptions": TV_ASSUME,
    },
    "C15": {
        "title": "Results are independent of the units of the axis and linear in the data",
        "scenarios": ["units"],
        "require_cov": [r"^REL\|Linear", r"^REL\|Spline\|scale", r"^REL\|Spline\|shift", r"^REL\|Bilinear", r"^RELQ\|Spline", r"^RELQ\|Bilinear"],
        "cov_report": [r"^REL", r"^EL\|"],
        "technique": "TLA+ trace validation: the claimed unit change between two recorded configurations is verified exactly by the spec, then results must satisfy r_b = d * r_a as exact rationals; up-to-rounding clauses follow from the accuracy predicates",
        "level_text": "pairs of interpolators related by power-of-two axis factors, dyadic shifts, +-power-of-two data factors (boundary derivative values converted) are recorded; TLC verifies the relation between the logged configurations exactly and then requires exactly scaled results for every paired query (in range and extrapolated, 1-D and 2-D with independent x/y factors); sums of data sets go through the accuracy predicate",
        "assumptions": TV_ASSUME,
    },
    "C17": {
        "title": "An interpolator is immutable: answers do not depend on history or concurrency",
        "scenarios": ["threads"],
        "require_cov": [r"^Q1\|Linear\|array_into\|Panic", r"^Q1\|Spline\|array\|Ok", r"^Q2\|Bilinear\|array\|Ok", r"^Q1\|Linear\|(interp|scalar|into|array)\|Err:OutOfBounds"],
        "cov_report": [r"^Q[12]\|"],
        "technique": "TLA+ trace validation: functional-dependence memo (object, lane, query) -> bits over histories replayed sequentially, permuted and split over 2..16 threads sharing one interpolator; Send/Sync asserted at compile time of the recorder",
        "level_text": "random histories mixing all entry points, in-range, out-of-range and rejected-buffer calls are run sequentially, in permuted order and concurrently from 2..16 scoped threads on one shared interpolator (and on one moved into a spawned thread); per-thread logs are concatenated without inferring any cross-thread order (query actions leave the object unchanged, so they commute); TLC requires identical bits for identical (object, lane, query) throughout",
        "assumptions": TV_ASSUME + ["Send/Sync is decided by compiling the concurrent recorder (explicit assert_send_sync instantiations); not expressible in TLA+"],
    },
    "C20": {
        "title": "Linear and Bilinear results depend only on the bracketing data points",
        "scenarios": ["poison"],
        "require_cov": [r"^EL\|Linear\|f64\|inner", r"^EL\|Linear\|f64\|extrap", r"^EL\|Bilinear\|f64\|"],
        "cov_report": [r"^EL\|"],
        "technique": "TLA+ trace validation: memo keyed by the bracketing points only (element type, 2/4 axis values, 2/4 data values, query) demands identical bits",
        "level_text": "families of interpolators differing only away from the query (non-bracketing rows / columns set to NaN, +-inf, random; non-bracketing knots moved within their neighbours) are queried at the same points; TLC requires identical bits whenever the bracketing points and the query are bitwise equal",
        "assumptions": TV_ASSUME,
    },
}

# ---- bounded TLA+ models (exhaustive TLC runs). expect_violation: negative self-tests that TLC must refute.
def M(name, module, cfg, cfg_thorough=None, workers=6, **kw):
    d = {"name": name, "module": module, "cfg": cfg, "workers": workers}
    if cfg_thorough:
        d["cfg_thorough"] = cfg_thorough
    d.update(kw)
    return d

MODELS = {
    "ExactQ": M("ExactQ", "MC_ExactQ.tla", "MC_ExactQ_quick.cfg", "MC_ExactQ.cfg", workers=8),
    "Linear": M("LinearTheorems", "LinearTheorems.tla", "MC_Linear.cfg", "MC_Linear_thorough.cfg", workers=2),
    "Bilinear": M("BilinearTheorems", "MC_Bilinear.tla", "MC_Bilinear.cfg", workers=2),
    "SplineAlgo": M("SplineAlgo", "SplineAlgo.tla", "MC_SplineAlgo.cfg", "MC_SplineAlgo_thorough.cfg", workers=6),
    "SplineAlgoNeg": M("SplineAlgo-as-found-D1", "SplineAlgo.tla", "MC_SplineAlgoNeg.cfg", workers=4, expect_violation=True),
    "SplineTheorems": M("SplineTheorems", "SplineTheorems.tla", "MC_SplineTheorems.cfg", workers=2),
    "NdInterp": M("NdInterp", "NdInterp.tla", "MC_NdInterp.cfg", "MC_NdInterp_thorough.cfg", workers=8),
    "NdInterpSpline": M("NdInterp-with-splines", "NdInterp.tla", "MC_NdInterpSpline.cfg", workers=8),
    "NdInterp2D": M("NdInterp-2D", "NdInterp.tla", "MC_NdInterp2D.cfg", workers=8),
    "NdInterpLive": M("NdInterp-every-call-returns (liveness under weak fairness)", "NdInterp.tla", "MC_NdInterpLive.cfg", workers=8),
    "NdInterpNeg": M("NdInterp-with-shared-hint", "NdInterp.tla", "MC_NdInterpNeg.cfg", workers=8, expect_violation=True, thorough_only=True),
    "Monotone": M("Monotone", "Monotone.tla", "MC_Monotone.cfg", "MC_Monotone_thorough.cfg"),
    "MonotoneNaN": M("Monotone-with-NaN", "Monotone.tla", "MC_MonotoneNaN.cfg"),
    "MonotoneQ": M("Monotone-quotient-all-lengths", "MonotoneQ.tla", "MC_MonotoneQ.cfg", workers=2),
    "Lookup": M("Lookup", "Lookup.tla", "MC_Lookup.cfg", "MC_Lookup_thorough.cfg", workers=8),
    "LookupSmall": M("Lookup-binding-and-liveness", "Lookup.tla", "MC_LookupSmall.cfg", workers=4),
    "LookupNeg": M("Lookup-swapped-hit-test", "Lookup.tla", "MC_LookupNeg.cfg", workers=2, expect_violation=True),
    "Builder": M("Builder", "Builder.tla", "MC_Builder.cfg", workers=4),
    "BuilderNeg": M("Builder-as-found-D2", "Builder.tla", "MC_BuilderNeg.cfg", workers=2, expect_violation=True),
    "Builder2": M("Builder2", "Builder2.tla", "MC_Builder2.cfg", workers=6),
    "Builder2Neg": M("Builder2-as-found-D2", "Builder2.tla", "MC_Builder2Neg.cfg", workers=2, expect_violation=True),
    "DimTypes": M("DimTypes", "DimTypes.tla", "MC_DimTypes.cfg", workers=2),
    "DimTypesNeg": M("DimTypes-widened-guard", "DimTypes.tla", "MC_DimTypesNeg.cfg", workers=2, expect_violation=True),
    "Lanes": M("Lanes-individual-boundary-dispatch", "Lanes.tla", "MC_Lanes.cfg", workers=2),
    "LanesNeg": M("Lanes-boundary-peeled-along-axis-1", "Lanes.tla", "MC_LanesNeg.cfg", workers=2, expect_violation=True),
    "Buffers": M("Buffers", "Buffers.tla", "MC_Buffers.cfg", "MC_Buffers_thorough.cfg", workers=6),
    "BuffersNegShape": M("Buffers-as-found-D4", "Buffers.tla", "MC_BuffersNeg.cfg", workers=2, expect_violation=True),
    "BuffersNegLayout": M("Buffers-as-found-D3", "Buffers.tla", "MC_BuffersNeg2.cfg", workers=2, expect_violation=True),
}

GENS = {
    "Monotone": {"name": "Gen_Monotone", "module": "Gen_Monotone.tla", "cfg": "Gen_Monotone.cfg", "cfg_thorough": "Gen_Monotone_thorough.cfg", "scenario": "mono"},
    "Builder": {"name": "Gen_Builder", "module": "Gen_Builder.tla", "cfg": "Gen_Builder.cfg", "scenario": "script"},
    "Buffers": {"name": "Gen_Buffers", "module": "Gen_Buffers.tla", "cfg": "Gen_Buffers.cfg", "scenario": "script"},
    "DimTypes": {"name": "Gen_DimTypes", "module": "Gen_DimTypes.tla", "cfg": "Gen_DimTypes.cfg", "scenario": "script", "reset_every": 0},
    # behaviours of the SYSTEM model NdInterp, stepped through the real crate (every history of the bounded universe)
    "NdLinear": {"name": "Gen_NdInterp", "module": "Gen_NdInterp.tla", "cfg": "Gen_NdInterp.cfg", "cfg_thorough": "Gen_NdInterp_thorough.cfg",
                 "scenario": "script", "reset_every": 0, "mark_every": 100},
    "NdSpline": {"name": "Gen_NdInterpSpline", "module": "Gen_NdInterp.tla", "cfg": "Gen_NdInterpSpline.cfg", "cfg_thorough": "Gen_NdInterpSpline_thorough.cfg",
                 "scenario": "script", "reset_every": 0, "mark_every": 100},
    "Nd2D": {"name": "Gen_NdInterp2D", "module": "Gen_NdInterp.tla", "cfg": "Gen_NdInterp2D.cfg", "cfg_thorough": "Gen_NdInterp2D_thorough.cfg",
             "scenario": "script", "reset_every": 0, "mark_every": 100},
    # long random behaviours (2 interpolators of any kind, 40 calls) from TLC's simulation mode
    "NdWalk": {"name": "Gen_NdInterpWalk", "module": "Gen_NdInterp.tla", "cfg": "Gen_NdInterpWalk.cfg", "scenario": "script",
               "reset_every": 0, "mark_every": 5, "simulate": {"num": 60, "num_thorough": 600, "depth": 100}},
    "Poly": {"name": "Gen_Poly", "module": "Gen_Poly.tla", "cfg": "Gen_Poly.cfg", "cfg_thorough": "Gen_Poly_thorough.cfg", "scenario": "script", "reset_every": 200},
    "Units": {"name": "Gen_Units", "module": "Gen_Units.tla", "cfg": "Gen_Units.cfg", "cfg_thorough": "Gen_Units_thorough.cfg", "scenario": "script", "reset_every": 250},
    "Lanes": {"name": "Gen_Lanes", "module": "Gen_Lanes.tla", "cfg": "Gen_Lanes.cfg", "scenario": "script", "reset_every": 20},
    "Lookup": {"name": "Gen_Lookup", "module": "Gen_Lookup.tla", "cfg": "Gen_Lookup.cfg", "cfg_thorough": "Gen_Lookup_thorough.cfg", "scenario": "lower"},
}

PROP_MODELS = {
    "C01": ["ExactQ", "Linear"],
    "C02": ["ExactQ", "SplineAlgo", "NdInterpSpline"],
    "C03": ["SplineAlgo", "SplineAlgoNeg"],
    "C04": ["Bilinear", "NdInterp2D"],
    "C05": ["NdInterp", "NdInterp2D"],
    "C06": ["Linear", "Bilinear", "SplineAlgo", "NdInterpSpline"],
    "C07": ["SplineTheorems", "NdInterpSpline"],
    "C08": ["Lanes", "LanesNeg", "SplineAlgo"],
    "C09": ["Buffers", "DimTypes", "NdInterp"],
    "C10": ["Builder", "Builder2", "BuilderNeg", "Builder2Neg"],
    "C11": ["Lookup", "LookupSmall", "LookupNeg"],
    "C12": ["Monotone", "MonotoneNaN", "MonotoneQ"],
    "C13": ["Buffers", "BuffersNegLayout"],
    "C14": ["Buffers", "BuffersNegShape", "NdInterp"],
    "C15": ["Linear", "Bilinear", "SplineTheorems"],
    "C16": ["SplineTheorems", "Linear", "Bilinear"],
    "C17": ["NdInterp", "NdInterpLive", "NdInterpNeg"],
    "C18": ["Builder", "Builder2"],
    "C19": ["DimTypes", "DimTypesNeg"],
    "C20": ["Linear", "Bilinear"],
}
PROP_GENS = {"C12": ["Monotone"], "C11": ["Lookup"], "C10": ["Builder"], "C14": ["Buffers", "NdLinear"], "C13": ["Buffers"], "C19": ["DimTypes"],
             "C04": ["Nd2D"], "C03": ["Lanes"], "C08": ["Lanes"], "C16": ["Poly"], "C15": ["Units"], "C05": ["NdLinear", "Nd2D"], "C06": ["NdSpline"], "C07": ["NdSpline"], "C17": ["NdLinear", "NdWalk"]}

for _p, _ms in PROP_MODELS.items():
    PROPS[_p]["mc"] = [MODELS[m] for m in _ms]
for _p, _gs in PROP_GENS.items():
    PROPS[_p]["gen"] = [GENS[g] for g in _gs]
# the generated cases replace the harness-local enumeration of these scenarios
PROPS["C11"]["aux"] = [{"name": "apalache-inductive-invariant-of-the-search-loop-for-any-axis-length",
                        "cmd": "spec/apalache/run.sh"}]
# binding demonstration (thorough tier): one recorded field is corrupted at a time and TLC must reject the trace at
# that line with a violation naming the property (bin/selftest; all corruptions: `bin/selftest`)
_SELFTESTS = {
    "C01": "result-bits rows-swapped", "C02": "spline-value", "C03": "spline-value", "C04": "bilinear-value", "C05": "outcome",
    "C06": "outcome", "C07": "periodic-value", "C08": "lane-1ulp", "C09": "result-shape", "C10": "build-outcome",
    "C11": "lookup-index", "C12": "monotonic-class", "C13": "layout-1ulp", "C14": "buffer-outside", "C15": "units-1ulp",
    "C16": "polynomial-value", "C17": "history-1ulp", "C18": "custom-build-axis custom-call-dropped", "C19": "cast-type cast-size",
    "C20": "locality-1ulp",
}
for _p, _names in _SELFTESTS.items():
    PROPS[_p].setdefault("aux", []).append({"name": "binding-selftest: corrupted recorded fields must be rejected (" + _names + ")",
                                            "cmd": "bin/selftest " + _names, "thorough_only": True})
# the executions of the crate's own test suite (call-log hooks) are validated against the trace specification
for _p in ["C01", "C02", "C03", "C04", "C06", "C07"]:
    PROPS[_p]["repo_tests"] = "thorough"
PROPS["C12"]["scenarios"] = []
PROPS["C11"]["scenarios"] = []

# properties not (yet) claimed, with the reason
NOT_APPLICABLE = {
}

"""Per-property configuration of bin/check: bounded models (mc), TLC case generators (gen) whose
cases are driven through the real crate, seeded scenarios, required coverage classes (vacuity)."""

TV_ASSUME = [
    "TLC 1.8.0 and the Java override verifx.ExactQ (validated against the pure TLA+ reference by MC_ExactQ)",
    "the harness records arguments and results faithfully (it never judges)",
    "inputs inside the driver envelope of DESIGN 2.4 (no overflow / subnormals)",
]

PROPS = {
    "C01": {
        "title": "Linear returns the exact piecewise-linear interpolant",
        "mc": [],
        "gen": [],
        "scenarios": ["linear"],
        "require_cov": [r"^EL\|Linear\|f64\|knot$", r"^EL\|Linear\|f64\|inner$", r"^EL\|Linear\|f32\|knot$", r"^EL\|Linear\|f32\|inner$"],
        "cov_report": [r"Linear"],
        "technique": "TLA+ trace validation with an exact-rational reference (TLC judges every recorded call)",
        "level_text": "every recorded Linear query is compared by TLC with the exact rational value of the bracketing line within the C01 rounding band",
        "assumptions": TV_ASSUME,
    },
}

# properties not (yet) claimed, with the reason
NOT_APPLICABLE = {
    "C02": "check under construction in this session (see DESIGN.md section 3)",
    "C03": "check under construction in this session (see DESIGN.md section 3)",
    "C04": "check under construction in this session (see DESIGN.md section 3)",
    "C05": "check under construction in this session (see DESIGN.md section 3)",
    "C06": "check under construction in this session (see DESIGN.md section 3)",
    "C07": "check under construction in this session (see DESIGN.md section 3)",
    "C08": "check under construction in this session (see DESIGN.md section 3)",
    "C09": "check under construction in this session (see DESIGN.md section 3)",
    "C10": "check under construction in this session (see DESIGN.md section 3)",
    "C11": "check under construction in this session (see DESIGN.md section 3)",
    "C12": "check under construction in this session (see DESIGN.md section 3)",
    "C13": "check under construction in this session (see DESIGN.md section 3)",
    "C14": "check under construction in this session (see DESIGN.md section 3)",
    "C15": "check under construction in this session (see DESIGN.md section 3)",
    "C16": "check under construction in this session (see DESIGN.md section 3)",
    "C17": "check under construction in this session (see DESIGN.md section 3)",
    "C18": "check under construction in this session (see DESIGN.md section 3)",
    "C19": "check under construction in this session (see DESIGN.md section 3)",
    "C20": "check under construction in this session (see DESIGN.md section 3)",
}

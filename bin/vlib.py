#!/usr/bin/env python3
"""Orchestrates one property check:  bin/check <ID> [--tier quick|thorough] [--seed N] [--replay FILE]

  1. rebuilds the conformance harness against /repo's current working tree (hooks on)
  2. model-checks the property's bounded TLA+ models with TLC (exhaustive)
  3. lets TLC generate cases, drives them and the seeded scenarios through the REAL crate,
     recording every call as ndjson
  4. validates the recorded traces with TLC against spec/TraceNdInterp.tla (the judge)
  5. writes evidence/<ID>.json, prints VIOLATION / KNOWN-FINDING lines

exit 0: property held on everything explored; 1: violation (with replay file); 2: tool error.
Only python3 stdlib is used.
"""
import json, os, re, subprocess, sys, time, shutil, hashlib

V = os.path.dirname(os.path.dirname(os.path.abspath(__file__)))
SPEC = os.path.join(V, "spec")
BUILD = os.path.join(V, "build")
TLA = "/opt/veriftools/tla"
CP = f"{TLA}/tla2tools.jar:{TLA}/CommunityModules-deps.jar:{BUILD}/classes"
DRIVER = os.path.join(BUILD, "cargo-target", "debug", "driver")

sys.path.insert(0, os.path.join(V, "bin"))
from registry import PROPS  # noqa: E402


def log(*a):
    print(*a, file=sys.stderr, flush=True)


def tool_error(msg):
    print(f"TOOL-ERROR: {msg}", flush=True)
    sys.exit(2)


def ensure_classes():
    cls = os.path.join(BUILD, "classes", "verifx", "ExactQ.class")
    src = os.path.join(V, "java", "verifx", "ExactQ.java")
    if os.path.exists(cls) and os.path.getmtime(cls) >= os.path.getmtime(src):
        return
    os.makedirs(os.path.join(BUILD, "classes"), exist_ok=True)
    r = subprocess.run(["javac", "-cp", f"{TLA}/tla2tools.jar", "-d", os.path.join(BUILD, "classes"),
                        os.path.join(V, "java", "verifx", "ExactQ.java"), os.path.join(V, "java", "verifx", "Overrides.java")],
                       capture_output=True, text=True)
    if r.returncode != 0:
        tool_error("javac failed: " + r.stderr[-2000:])


def build_harness(prop):
    """cargo rebuilds the path dependency /repo whenever its sources changed"""
    env = dict(os.environ, CARGO_NET_OFFLINE="true")
    t0 = time.time()
    r = subprocess.run(["cargo", "build", "--offline", "--bin", "driver"], cwd=os.path.join(V, "harness"),
                       env=env, capture_output=True, text=True)
    if r.returncode != 0:
        err = r.stderr
        os.makedirs(os.path.join(V, "replays"), exist_ok=True)
        path = os.path.join(V, "replays", f"{prop}-build-failure.txt")
        with open(path, "w") as f:
            f.write(err[-20000:])
        # Send/Sync of the interpolators is asserted by the harness at compile time (C17)
        if prop == "C17" and re.search(r"cannot be (sent|shared) between threads safely|`(Send|Sync)` is not (satisfied|implemented)", err):
            return ("violation", path)
        tool_error("harness does not build against /repo (see %s): %s" % (path, err[-1500:]))
    return ("ok", time.time() - t0)


def run_tlc(name, module, cfg, workers, env_extra=None, timeout=3600, serial_gc=False, extra=None):
    meta = os.path.join(BUILD, "tlc", name)
    shutil.rmtree(meta, ignore_errors=True)
    os.makedirs(meta, exist_ok=True)
    gc = ["-XX:+UseSerialGC"] if serial_gc else ["-XX:+UseParallelGC"]
    jtmp = os.path.join(meta, "jtmp")      # TLC / SANY scratch files: inside the run's own directory, removed with it
    os.makedirs(jtmp, exist_ok=True)
    cmd = ["timeout", str(timeout), "java", f"-Djava.io.tmpdir={jtmp}"] + gc + ["-Xmx8g", "-Xss1g",
           "-Dtlc2.overrides.TLCOverrides=tlc2.overrides.TLCOverrides:verifx.Overrides",
           "-cp", CP, "tlc2.TLC", "-metadir", meta, "-cleanup", "-noGenerateSpecTE",
           "-workers", str(workers), "-config", cfg] + (extra or []) + [module]
    env = dict(os.environ)
    if env_extra:
        env.update(env_extra)
    t0 = time.time()
    r = subprocess.run(cmd, cwd=SPEC, env=env, capture_output=True, text=True)
    out = r.stdout + r.stderr
    shutil.rmtree(meta, ignore_errors=True)
    return r.returncode, out, time.time() - t0


def parse_mc_stats(out):
    m = re.search(r"(\d+) states generated, (\d+) distinct states found", out)
    if not m:
        return None
    return {"generated": int(m.group(1)), "distinct": int(m.group(2))}


def spec_digest(cfg):
    """content hash of everything a bounded model depends on: all spec modules, its cfg, the ExactQ override"""
    h = hashlib.sha1()
    for fn in sorted(os.listdir(SPEC)):
        if fn.endswith(".tla") or fn == cfg:
            with open(os.path.join(SPEC, fn), "rb") as f:
                h.update(fn.encode() + b"\0" + f.read())
    with open(os.path.join(V, "java", "verifx", "ExactQ.java"), "rb") as f:
        h.update(f.read())
    return h.hexdigest()


def run_mc_cached(prop, tier, mc):
    """Thorough tier only: a bounded model does not depend on the code under test, so an identical model
    (same spec modules, cfg and override, by content hash) that was already checked in this /verif/build is not
    re-run; the evidence marks such entries with from_cache."""
    if tier != "thorough":
        return run_mc(prop, tier, mc)
    cfg = mc.get("cfg_thorough") or mc["cfg"]
    cdir = os.path.join(BUILD, "mc_cache")
    os.makedirs(cdir, exist_ok=True)
    key = os.path.join(cdir, f"{mc['name']}-{spec_digest(cfg)}.json")
    if os.path.exists(key):
        with open(key) as f:
            st = json.load(f)
        st["from_cache"] = True
        return st, ""
    st, out = run_mc(prop, tier, mc)
    with open(key, "w") as f:
        json.dump(st, f)
    return st, out


def run_mc(prop, tier, mc):
    """exhaustive TLC run of a bounded model; returns stats; any error is a tool error
    (the models do not depend on the code: a failure means the specification itself is broken)"""
    name = mc["name"]
    cfg = mc.get("cfg_thorough") if tier == "thorough" and mc.get("cfg_thorough") else mc["cfg"]
    module = mc["module"]
    workers = mc.get("workers", 8)
    rc, out, dt = run_tlc(f"{prop}-{name}", module, cfg, workers, timeout=mc.get("timeout", 3600),
                          extra=(["-coverage", "1"] if mc.get("coverage") else None))
    st = parse_mc_stats(out)
    ok = rc == 0 and "Model checking completed. No error has been found." in out
    if mc.get("expect_violation"):
        # negative self-test: the model variant must be refuted
        if "is violated" in out or "Error: " in out:
            return {"model": name, "cfg": cfg, "states": st["distinct"] if st else 0, "transitions": st["generated"] if st else 0,
                    "wall_s": round(dt, 1), "negative_selftest": "refuted as required"}, out
        tool_error(f"negative self-test {name} was NOT refuted by TLC")
    if not ok or not st:
        tail = out[-3000:]
        tool_error(f"model {module}/{cfg} failed (rc={rc}): {tail}")
    return {"model": name, "cfg": cfg, "states": st["distinct"], "transitions": st["generated"], "wall_s": round(dt, 1), "exhaustive": True}, out


def run_gen(prop, tier, gen, workdir, seed=1):
    """let TLC print generated cases (lines 'CASE {json}'); returns path of the case file"""
    cfg = gen.get("cfg_thorough") if tier == "thorough" and gen.get("cfg_thorough") else gen["cfg"]
    extra = None
    if gen.get("simulate"):
        # long random behaviours: TLC simulation mode, reproducible from the seed of the check
        sim = gen["simulate"]
        extra = ["-simulate", f"num={sim['num_thorough'] if tier == 'thorough' else sim['num']}", "-depth", str(sim["depth"]), "-seed", str(seed)]
    rc, out, dt = run_tlc(f"{prop}-{gen['name']}", gen["module"], cfg, gen.get("workers", 1), timeout=gen.get("timeout", 1800), extra=extra)
    ok = ("traces generated" in out and "Error" not in out) if gen.get("simulate") else "No error has been found" in out
    if rc != 0 or not ok:
        tool_error(f"generator {gen['module']}/{cfg} failed (rc={rc}): {out[-3000:]}")
    path = os.path.join(workdir, gen["name"] + ".cases.ndjson")
    n = marks = 0
    with open(path, "w") as f:
        f.write('{"ev":"Reset","sc":"generated"}\n')
        for line in out.splitlines():
            line = line.strip()
            if line.startswith('"CASE '):
                try:
                    s = json.loads(line)
                except Exception:
                    continue
                if s[5:] == '{"ev":"Mark"}':
                    # start of a generated behaviour: every mark_every-th one starts a new validation chunk
                    marks += 1
                    if gen.get("mark_every") and marks % gen["mark_every"] == 0:
                        f.write('{"ev":"Reset","sc":"generated"}\n')
                    continue
                f.write(s[5:] + "\n")
                n += 1
                if gen.get("reset_every", 300) and n % gen.get("reset_every", 300) == 0:
                    f.write('{"ev":"Reset","sc":"generated"}\n')   # lets the trace be validated in parallel chunks
    st = parse_mc_stats(out)
    if not st:
        m = re.search(r"(\d+) states checked", out)
        st = {"distinct": int(m.group(1)) if m else 0, "generated": int(m.group(1)) if m else 0}
    return path, n, {"model": gen["name"], "cfg": cfg, "states": st["distinct"], "transitions": st["generated"],
                     "cases": n, "wall_s": round(dt, 1)}


class DriverCrashed(Exception):
    pass


class DriverHung(Exception):
    """a single call into the crate under test did not return (watchdog of the driver)"""


def run_driver(scenario, seed, tier, out_path, cases=None, timeout=3600, crash_ok=False):
    cmd = ["timeout", str(timeout), DRIVER, scenario, "--out", out_path, "--seed", str(seed), "--tier", tier]
    if cases:
        cmd += ["--cases", cases]
    r = subprocess.run(cmd, capture_output=True, text=True)
    if r.returncode == 77 and os.path.exists(out_path + ".hang"):
        raise DriverHung(open(out_path + ".hang").read().strip())
    if r.returncode != 0:
        # the process was killed by a signal (timeout(1) reports 128+n, python a negative code): the code under
        # test crashed the process - for scenarios that exercise an unchecked cast that is an observation
        if crash_ok and (r.returncode < 0 or r.returncode in (132, 134, 135, 136, 139)):
            raise DriverCrashed(f"driver {scenario} died with status {r.returncode}: {(r.stdout + r.stderr)[-1500:]}")
        tool_error(f"driver {scenario} failed rc={r.returncode}: {(r.stdout + r.stderr)[-2000:]}")
    return r.stdout.strip()


def run_repo_tests(prop, work, out):
    """cargo test of /repo's working tree with --cfg ndarray_interp_verif and NDINTERP_VERIF_TRACE set (build output
    under /verif/build, nothing is written into /repo); the call log is converted by bin/rtv"""
    raw = os.path.join(work, "repo-tests.raw")
    if os.path.exists(raw):
        os.remove(raw)
    env = dict(os.environ, CARGO_NET_OFFLINE="true", NDINTERP_VERIF_TRACE=raw,
               RUSTFLAGS="--cfg ndarray_interp_verif", CARGO_TARGET_DIR=os.path.join(BUILD, "repo-test-target"))
    t0 = time.time()
    r = subprocess.run(["cargo", "test", "--workspace", "--no-fail-fast", "--offline"], cwd="/repo", env=env,
                       capture_output=True, text=True)
    passed = sum(int(m) for m in re.findall(r"test result: \w+\. (\d+) passed", r.stdout))
    failed = sum(int(m) for m in re.findall(r"test result: \w+\. \d+ passed; (\d+) failed", r.stdout))
    if not os.path.exists(raw):
        tool_error(f"the test suite of /repo wrote no call log (rc={r.returncode}): {(r.stdout + r.stderr)[-1500:]}")
    c = subprocess.run([os.path.join(V, "bin", "rtv"), raw, out], capture_output=True, text=True)
    if c.returncode != 0:
        tool_error(f"bin/rtv failed: {c.stderr[-1500:]}")
    info = json.loads(c.stdout.strip().splitlines()[-1])
    info.update({"tests_passed": passed, "tests_failed": failed, "wall_s": round(time.time() - t0, 1)})
    return info


def split_trace(trace_path, max_chunks):
    """split at Reset boundaries into chunks of similar size; returns [(path, first_line_offset)]"""
    with open(trace_path) as f:
        lines = f.read().splitlines()
    if not lines:
        return []
    starts = [i for i, l in enumerate(lines) if l.startswith('{"ev":"Reset"')]
    if not starts or starts[0] != 0:
        starts = [0] + starts
    total = sum(len(l) for l in lines)
    target = max(total // max_chunks, 100_000)
    chunks, cur_start, acc = [], 0, 0
    for k, st in enumerate(starts):
        end = starts[k + 1] if k + 1 < len(starts) else len(lines)
        acc += sum(len(l) for l in lines[st:end])
        if acc >= target or end == len(lines):
            chunks.append((cur_start, end))
            cur_start, acc = end, 0
    out = []
    for j, (a, b) in enumerate(chunks):
        if a >= b:
            continue
        path = f"{trace_path}.part{j}"
        with open(path, "w") as f:
            f.write("\n".join(lines[a:b]) + "\n")
        out.append((path, a))
    return out


def validate_chunk(name, trace_path, timeout):
    env = {"TRACE": trace_path, "JAVA_TOOL_OPTIONS": "-Dtlc2.tool.queue.IStateQueue=StateDeque"}
    rc, out, dt = run_tlc(name, "TraceNdInterp.tla", "TraceNdInterp.cfg", 1, env_extra=env, timeout=timeout, serial_gc=True)
    verdict = None
    for line in out.splitlines():
        line = line.strip()
        if line.startswith('"VERDICT '):
            try:
                verdict = json.loads(json.loads(line)[8:])
            except Exception as e:
                return None, f"cannot parse verdict: {e}: {line[:300]}", None
    if rc != 0 or verdict is None or "No error has been found" not in out:
        m = re.search(r"(Error: .*?)(?:Error: The behavior up to this point|$)", out, re.S)
        msg = (m.group(1) if m else out[-2500:])[:2500]
        pos = re.findall(r"\d+\. Line \d+, column \d+ to line \d+, column \d+ in \w+", out)
        return None, f"trace validation of {trace_path} failed (rc={rc}): {msg} {' '.join(pos[-6:])}", None
    if verdict["consumed"] != verdict["total"]:
        return None, f"trace {trace_path}: only {verdict['consumed']} of {verdict['total']} events consumed", None
    return verdict, None, parse_mc_stats(out)


from concurrent.futures import ThreadPoolExecutor as _TPE
CHUNK_POOL = _TPE(max_workers=int(os.environ.get("VERIF_TLC_PROCS", "14")))   # one single-worker TLC process per chunk


def validate_trace(name, trace_path, timeout=7200, par=10):
    """TLC validates the trace against spec/TraceNdInterp.tla; scenario groups (separated by Reset events,
    which clear all specification state) are validated by parallel TLC processes"""
    from concurrent.futures import ThreadPoolExecutor
    t0 = time.time()
    chunks = split_trace(trace_path, par)
    if not chunks:
        tool_error(f"empty trace {trace_path}")
    results = list(CHUNK_POOL.map(lambda c: validate_chunk(f"{name}-{os.path.basename(c[0])}", c[0], timeout), chunks))
    merged = {"consumed": 0, "total": 0, "bad": [], "cov": {}, "head": {}}
    states = 0
    for (path, off), (verdict, err, st) in zip(chunks, results):
        if err:
            tool_error(err)
        merged["consumed"] += verdict["consumed"]
        merged["total"] += verdict["total"]
        for b in verdict["bad"]:
            b["line"] += off
            merged["bad"].append(b)
        if not isinstance(verdict.get("cov"), dict):
            verdict["cov"] = {}
        if not isinstance(verdict.get("head"), dict):
            verdict["head"] = {}
        for k, v in verdict["cov"].items():
            merged["cov"][k] = merged["cov"].get(k, 0) + v
        for k, v in verdict.get("head", {}).items():
            merged["head"][k] = max(merged["head"].get(k, 0), v)
        states += st["distinct"] if st else 0
        os.remove(path)
    return merged, {"distinct": states, "generated": states}, time.time() - t0


def load_known():
    p = os.path.join(V, "known_findings.json")
    if not os.path.exists(p):
        return []
    with open(p) as f:
        return json.load(f).get("findings", [])


def write_replay(prop, seed, trace_path, line, sig):
    """the scenario slice (from the last Reset up to the offending event)"""
    os.makedirs(os.path.join(V, "replays"), exist_ok=True)
    with open(trace_path) as f:
        lines = f.read().splitlines()
    start = 0
    for i in range(min(line, len(lines)) - 1, -1, -1):
        try:
            if json.loads(lines[i]).get("ev") == "Reset":
                start = i
                break
        except Exception:
            pass
    h = hashlib.sha1((sig + str(line)).encode()).hexdigest()[:8]
    path = os.path.join(V, "replays", f"{prop}-s{seed}-{h}.ndjson")
    with open(path, "w") as f:
        f.write("\n".join(lines[start:line]) + "\n")
    return path


def main():
    args = sys.argv[1:]
    if not args:
        print(__doc__)
        sys.exit(2)
    prop = args[0]
    tier = os.environ.get("VERIF_TIER", "quick")
    seed = int(os.environ.get("VERIF_SEED", "1") or 1)
    replay = None
    i = 1
    while i < len(args):
        if args[i] == "--tier":
            tier = args[i + 1]; i += 2
        elif args[i] == "--seed":
            seed = int(args[i + 1]); i += 2
        elif args[i] == "--replay":
            replay = args[i + 1]; i += 2
        else:
            tool_error(f"unknown argument {args[i]}")
    if prop not in PROPS:
        tool_error(f"unknown property {prop}")
    if tier not in ("quick", "thorough"):
        tool_error(f"unknown tier {tier}")
    P = PROPS[prop]
    t_start = time.time()
    work = os.path.join(BUILD, "work", f"{prop}-{tier}")
    shutil.rmtree(work, ignore_errors=True)
    os.makedirs(work, exist_ok=True)
    os.makedirs(os.path.join(V, "evidence"), exist_ok=True)

    ensure_classes()
    violations = []   # (sig, replay_path, detail)
    known_hits = []
    b = build_harness(prop)
    if b[0] == "violation":
        violations.append(("C17|Send-Sync|harness-does-not-compile", b[1], "interpolator types are not Send + Sync"))

    mc_stats, gen_stats, aux_stats, repo_test_info = [], [], [], []
    traces = []  # (label, path)
    samples = []
    cov_total = {}
    head_total = {}
    tv_states = 0
    tv_events = 0
    tv_wall = 0.0

    if not violations:
        if replay:
            out = os.path.join(work, "replay.ndjson")
            run_driver("script", seed, tier, out, cases=replay)
            traces.append(("replay", out))
        else:
            for mc in P.get("mc", []):
                if tier == "quick" and mc.get("thorough_only"):
                    continue
                st, _ = run_mc_cached(prop, tier, mc)
                mc_stats.append(st)
                log(f"[{prop}] MC {st}")
            for aux in P.get("aux", []):
                if tier == "quick" and aux.get("thorough_only"):
                    continue
                t0 = time.time()
                r = subprocess.run(aux["cmd"], shell=True, cwd=V, capture_output=True, text=True)
                if r.returncode != 0:
                    tool_error(f"auxiliary obligation {aux['name']} failed: {(r.stdout + r.stderr)[-1500:]}")
                aux_stats.append({"name": aux["name"], "cmd": aux["cmd"], "wall_s": round(time.time() - t0, 1),
                                  "result": [l for l in r.stdout.splitlines() if l.strip()][-6:]})
                log(f"[{prop}] AUX {aux['name']}: ok")
            for gen in P.get("gen", []):
                if tier == "quick" and gen.get("thorough_only"):
                    continue
                path, n, st = run_gen(prop, tier, gen, work, seed)
                gen_stats.append(st)
                log(f"[{prop}] GEN {st}")
                out = os.path.join(work, gen["name"] + ".trace.ndjson")
                try:
                    msg = run_driver(gen["scenario"], seed, tier, out, cases=path)
                except DriverHung as e:
                    os.makedirs(os.path.join(V, "replays"), exist_ok=True)
                    rp = os.path.join(V, "replays", f"{prop}-s{seed}-{gen['name']}-hang.txt")
                    with open(rp, "w") as f:
                        f.write(f"re-run: harness driver {gen['scenario']} --cases <{gen['name']} cases> --seed {seed}\n{e}\n")
                    violations.append((f"{prop}|{gen['name']}|call-does-not-return", rp, str(e)[:400]))
                    continue
                log(f"[{prop}] driver {gen['scenario']}: {msg}")
                traces.append((gen["name"], out))
            # thorough: every seeded scenario is run with three seeds (seed, seed + 1000, seed + 2000)
            plan = []
            for sc in P.get("scenarios", []):
                for k in range(3 if tier == "thorough" else 1):
                    plan.append((sc, seed + 1000 * k, k))
            for sc, sc_seed, k in plan:
                crash_sig = None
                if isinstance(sc, dict):
                    sc, crash_sig = sc["name"], sc.get("crash_is_violation")
                out = os.path.join(work, sc + (f".s{k}" if k else "") + ".trace.ndjson")
                try:
                    msg = run_driver(sc, sc_seed, tier, out, crash_ok=bool(crash_sig))
                except DriverHung as e:
                    os.makedirs(os.path.join(V, "replays"), exist_ok=True)
                    rp = os.path.join(V, "replays", f"{prop}-s{seed}-{sc}-hang.txt")
                    with open(rp, "w") as f:
                        f.write(f"re-run: harness driver {sc} --seed {sc_seed} --tier {tier}\n{e}\n")
                    violations.append((f"{prop}|{sc}|call-does-not-return", rp, str(e)[:400]))
                    log(f"[{prop}] driver {sc}: HANG")
                    continue
                except DriverCrashed as e:
                    os.makedirs(os.path.join(V, "replays"), exist_ok=True)
                    rp = os.path.join(V, "replays", f"{prop}-s{seed}-{sc}-crash.txt")
                    with open(rp, "w") as f:
                        f.write(f"scenario: {sc} (re-run: harness driver {sc} --seed {seed} --tier {tier})\n{e}\n")
                    violations.append((crash_sig, rp, str(e)[:400]))
                    log(f"[{prop}] driver {sc}: CRASHED")
                    continue
                log(f"[{prop}] driver {sc}: {msg}")
                traces.append((sc + (f"-s{k}" if k else ""), out))

            # the crate's OWN test suite, run with the call-log hooks on; its executions are validated like any trace
            if P.get("repo_tests") and (tier == "thorough" or P["repo_tests"] == "always"):
                out = os.path.join(work, "repo-tests.trace.ndjson")
                info = run_repo_tests(prop, work, out)
                log(f"[{prop}] repo test suite with call log: {info}")
                repo_test_info.append(info)
                traces.append(("repo-tests", out))

        known = [k for k in load_known() if k.get("property") == prop]
        from concurrent.futures import ThreadPoolExecutor
        with ThreadPoolExecutor(max_workers=max(1, len(traces))) as ex:
            tv_results = list(ex.map(lambda lp: validate_trace(f"{prop}-tv-{lp[0]}", lp[1]), traces))
        for (label, path), (verdict, st, dt) in zip(traces, tv_results):
            tv_states += st["distinct"] if st else 0
            tv_events += verdict["total"]
            tv_wall += dt
            for k, v in verdict["cov"].items():
                cov_total[k] = cov_total.get(k, 0) + v
            for k, v in verdict.get("head", {}).items():
                head_total[k] = max(head_total.get(k, 0), v)
            log(f"[{prop}] TV {label}: {verdict['total']} events, {len(verdict['bad'])} findings (all properties), {dt:.1f}s")
            # keep a sample event
            try:
                with open(path) as f:
                    for ln, line in enumerate(f):
                        if ln in (1, 2):
                            samples.append(json.loads(line[:100000]) if len(line) < 4000 else {"event_prefix": line[:600]})
            except Exception:
                pass
            for bad in verdict["bad"]:
                if prop not in bad["props"]:
                    continue
                sig = bad["sig"]
                opens = [k for k in known if k.get("status") == "open" and k.get("signature") == sig]
                if opens:
                    known_hits.append((sig, opens[0].get("what", "")))
                    continue
                rp = write_replay(prop, seed, path, bad["line"], sig)
                violations.append((sig, rp, json.dumps(bad["detail"])[:600]))

    # vacuity: required coverage classes
    missing = []
    if not replay and not violations:
        for pat in P.get("require_cov", []):
            rx = re.compile(pat)
            if not any(rx.search(k) and v > 0 for k, v in cov_total.items()):
                missing.append(pat)

    wall = time.time() - t_start
    states = sum(s["states"] for s in mc_stats) + sum(s["states"] for s in gen_stats) + tv_states
    transitions = sum(s["transitions"] for s in mc_stats) + sum(s["transitions"] for s in gen_stats) + tv_states
    relevant_cov = {k: v for k, v in sorted(cov_total.items()) if any(re.search(p, k) for p in P.get("cov_report", [".*"]))}
    evidence = {
        "property_id": prop,
        "tier": tier,
        "seed": seed,
        "level": P.get("level", "model_checking"),
        "coverage": {
            "states": max(states, 0),
            "transitions": max(transitions, 0),
            "traces_validated_against_impl": len(traces),
            "trace_events_validated": tv_events,
            "samples": samples[:3] if samples else [{"note": "no trace recorded"}],
            "models": mc_stats,
            "generators": gen_stats,
            "auxiliary_obligations": aux_stats,
            "repo_test_suite_traces": repo_test_info,
            "coverage_classes": relevant_cov,
            "largest_error_permille_of_tolerance": head_total,
            "exhaustive": False,
            "exhaustive_note": "each entry of 'models' is an exhaustive TLC run of a bounded model; the recorded traces sample the input space",
            "explanation": P.get("explanation", ""),
            "known_findings_hit": [s for s, _ in known_hits],
            "missing_required_coverage": missing,
            "tv_wall_s": round(tv_wall, 1),
        },
        "assumptions": P.get("assumptions", []),
        "wall_s": round(wall, 1),
        "violations": len(violations),
    }
    # runs against a deliberately modified tree (bin/seedrun) must not overwrite the evidence of the real tree
    evdir = os.environ.get("VERIF_EVIDENCE_DIR") or os.path.join(V, "evidence")
    os.makedirs(evdir, exist_ok=True)
    with open(os.path.join(evdir, f"{prop}.json"), "w") as f:
        json.dump(evidence, f, indent=1)

    seen = set()
    for sig, what in known_hits:
        if sig in seen:
            continue
        seen.add(sig)
        print(f"KNOWN-FINDING: property={prop} {sig} {what}")
    if violations:
        done = set()
        for sig, rp, detail in violations:
            if sig in done:
                continue
            done.add(sig)
            print(f"VIOLATION property={prop} replay={rp}")
            print(f"  signature: {sig}")
            print(f"  detail: {detail}")
        sys.exit(1)
    differs = {k: v for k, v in cov_total.items() if k.startswith("MODEL|differs") and v > 0}
    if differs:
        tool_error(f"the system model NdInterp and the trace specification disagree on replayed behaviours: {differs}")
    if missing:
        tool_error(f"vacuity: required coverage classes never exercised: {missing}")
    print(f"OK property={prop} tier={tier} seed={seed} states={states} events={tv_events} wall={wall:.0f}s")
    sys.exit(0)


if __name__ == "__main__":
    main()

//! Building interpolators from runtime descriptions, and the recording custom strategies.

use crate::dynif::*;
use crate::el::*;
use crate::lay::*;
use ndarray::{
    ArrayBase, ArrayD, ArrayViewD, ArrayViewMut, Data, Dimension, Ix1, Ix2, Ix3, Ix4, Ix5, Ix6, IxDyn, RemoveAxis,
    ShapeBuilder,
};
use ndarray_interp::interp1d::cubic_spline::{BoundaryCondition, CubicSpline, RowBoundary, SingleBoundary};
use ndarray_interp::interp1d::{Interp1D, Interp1DBuilder, Interp1DStrategy, Interp1DStrategyBuilder, Linear};
use ndarray_interp::interp2d::{Bilinear, Interp2D, Interp2DBuilder, Interp2DStrategy, Interp2DStrategyBuilder};
use ndarray_interp::{BuilderError, InterpolateError};
use std::panic::{catch_unwind, AssertUnwindSafe};
use std::sync::atomic::{AtomicUsize, Ordering};
use std::sync::{Arc, Mutex};

#[derive(Clone, Copy, Debug, PartialEq, Eq)]
pub enum Store {
    Owned,
    View,
    Shared,
}

impl Store {
    pub fn name(self) -> &'static str {
        match self {
            Store::Owned => "Owned",
            Store::View => "View",
            Store::Shared => "Shared",
        }
    }
}

/// one end of one lane: (kind, value)
#[derive(Clone, Debug)]
pub struct Side<T> {
    pub kind: &'static str, // NotAKnot | Natural | Clamped | FirstDeriv | SecondDeriv
    pub val: Option<T>,
}

/// one lane of an `Individual` boundary array
#[derive(Clone, Debug)]
pub enum RowB<T> {
    Row(&'static str), // NotAKnot | Natural | Clamped
    Mixed(Side<T>, Side<T>),
}

#[derive(Clone, Debug)]
pub enum Bc<T> {
    Global(&'static str), // NotAKnot | Natural | Clamped | Periodic
    Individual(ArrayD<RowB<T>>),
}

/// shared state of a recording custom strategy
#[derive(Clone, Default)]
pub struct RecShared {
    pub log: Arc<Mutex<Vec<String>>>,
    pub calls: Arc<AtomicUsize>,
}

#[derive(Clone)]
pub struct CustomCfg {
    pub min: usize,
    pub fail_build: bool,
    pub fail_at: Option<usize>,
    pub shared: RecShared,
}

#[derive(Clone)]
pub enum Strat1<T> {
    Linear { ex: bool },
    Spline { ex: bool, bc: Bc<T> },
    Custom(CustomCfg),
}

#[derive(Clone)]
pub enum Strat2 {
    Bilinear { ex: bool },
    Custom(CustomCfg),
}

pub struct BuildOut<'a, I: ?Sized + 'a> {
    /// "Ok" | "Err:<Kind>" | "Panic" | "NA"
    pub out: String,
    pub msg: String,
    pub it: Option<Box<I>>,
    pub _p: std::marker::PhantomData<&'a ()>,
}

fn berr(e: BuilderError) -> (String, String) {
    match e {
        BuilderError::NotEnoughData(m) => ("NotEnoughData".into(), m),
        BuilderError::Monotonic(m) => ("Monotonic".into(), m),
        BuilderError::ShapeError(m) => ("ShapeError".into(), m),
        BuilderError::ValueError(m) => ("ValueError".into(), m),
    }
}

// ------------------------------------------------------------------------------------------------
// recording strategies

pub struct RecBuilder<const MIN: usize> {
    pub cfg: CustomCfg,
}

pub struct RecStrat {
    pub cfg: CustomCfg,
}

fn cb_build_json<T: El>(x: &[T], y: Option<&[T]>, data: &ArrayD<T>) -> String {
    let xs: Vec<String> = x.iter().map(|v| v.pay()).collect();
    let mut kv = vec![("cb", jstr("build")), ("x", jarr_s(&xs))];
    if let Some(y) = y {
        let ys: Vec<String> = y.iter().map(|v| v.pay()).collect();
        kv.push(("y", jarr_s(&ys)));
    }
    kv.push(("d", jarr(data)));
    jobj(&kv)
}

impl<Sd, Sx, D, const MIN: usize> Interp1DStrategyBuilder<Sd, Sx, D> for RecBuilder<MIN>
where
    Sd: Data,
    Sd::Elem: El,
    Sx: Data<Elem = Sd::Elem>,
    D: Dimension + RemoveAxis,
{
    const MINIMUM_DATA_LENGHT: usize = MIN;
    type FinishedStrat = RecStrat;

    fn build<Sx2>(self, x: &ArrayBase<Sx2, Ix1>, data: &ArrayBase<Sd, D>) -> Result<RecStrat, BuilderError>
    where
        Sx2: Data<Elem = Sd::Elem>,
    {
        let xs: Vec<Sd::Elem> = x.iter().copied().collect();
        let d = data.to_owned().into_dyn();
        self.cfg.shared.log.lock().unwrap().push(cb_build_json(&xs, None, &d));
        if self.cfg.fail_build {
            return Err(BuilderError::ValueError("verif-token-build".into()));
        }
        Ok(RecStrat { cfg: self.cfg })
    }
}

impl<Sd, Sx, D> Interp1DStrategy<Sd, Sx, D> for RecStrat
where
    Sd: Data,
    Sd::Elem: El,
    Sx: Data<Elem = Sd::Elem>,
    D: Dimension + RemoveAxis,
{
    fn interp_into(
        &self,
        it: &Interp1D<Sd, Sx, D, Self>,
        mut target: ArrayViewMut<'_, Sd::Elem, D::Smaller>,
        x: Sd::Elem,
    ) -> Result<(), InterpolateError> {
        let k = self.cfg.shared.calls.fetch_add(1, Ordering::SeqCst);
        // accessors as seen from inside the strategy
        let (x0, row0) = it.index_point(0);
        let row0v: Vec<String> = row0.iter().map(|v| v.pay()).collect();
        let inr = it.is_in_range(x);
        #[allow(clippy::eq_op)]
        let is_nan = x != x;
        let left = if is_nan { -1 } else { it.get_index_left_of(x) as isize };
        self.cfg.shared.log.lock().unwrap().push(jobj(&[
            ("cb", jstr("interp")),
            ("k", k.to_string()),
            ("q", jstr(&x.pay())),
            ("ts", jarr_u(target.shape())),
            ("x0", jstr(&x0.pay())),
            ("row0", jarr_s(&row0v)),
            ("inr", if inr { "1".into() } else { "0".into() }),
            ("left", left.to_string()),
        ]));
        if self.cfg.fail_at == Some(k) {
            return Err(InterpolateError::OutOfBounds(format!("verif-token-{k}")));
        }
        target.fill(x);
        Ok(())
    }
}

impl<Sd, Sx, Sy, D, const MIN: usize> Interp2DStrategyBuilder<Sd, Sx, Sy, D> for RecBuilder<MIN>
where
    Sd: Data,
    Sd::Elem: El,
    Sx: Data<Elem = Sd::Elem>,
    Sy: Data<Elem = Sd::Elem>,
    D: Dimension + RemoveAxis,
    D::Smaller: RemoveAxis,
{
    const MINIMUM_DATA_LENGHT: usize = MIN;
    type FinishedStrat = RecStrat;

    fn build(
        self,
        x: &ArrayBase<Sx, Ix1>,
        y: &ArrayBase<Sy, Ix1>,
        data: &ArrayBase<Sd, D>,
    ) -> Result<RecStrat, BuilderError> {
        let xs: Vec<Sd::Elem> = x.iter().copied().collect();
        let ys: Vec<Sd::Elem> = y.iter().copied().collect();
        let d = data.to_owned().into_dyn();
        self.cfg.shared.log.lock().unwrap().push(cb_build_json(&xs, Some(&ys), &d));
        if self.cfg.fail_build {
            return Err(BuilderError::ValueError("verif-token-build".into()));
        }
        Ok(RecStrat { cfg: self.cfg })
    }
}

impl<Sd, Sx, Sy, D> Interp2DStrategy<Sd, Sx, Sy, D> for RecStrat
where
    Sd: Data,
    Sd::Elem: El,
    Sx: Data<Elem = Sd::Elem>,
    Sy: Data<Elem = Sd::Elem>,
    D: Dimension + RemoveAxis,
    D::Smaller: RemoveAxis,
{
    fn interp_into(
        &self,
        it: &Interp2D<Sd, Sx, Sy, D, Self>,
        mut target: ArrayViewMut<'_, Sd::Elem, <D::Smaller as Dimension>::Smaller>,
        x: Sd::Elem,
        y: Sd::Elem,
    ) -> Result<(), InterpolateError> {
        let k = self.cfg.shared.calls.fetch_add(1, Ordering::SeqCst);
        let (x0, y0, row0) = it.index_point(0, 0);
        let row0v: Vec<String> = row0.iter().map(|v| v.pay()).collect();
        let inx = it.is_in_x_range(x);
        let iny = it.is_in_y_range(y);
        #[allow(clippy::eq_op)]
        let is_nan = x != x || y != y;
        let (lx, ly) = if is_nan {
            (-1, -1)
        } else {
            let (a, b) = it.get_index_left_of(x, y);
            (a as isize, b as isize)
        };
        self.cfg.shared.log.lock().unwrap().push(jobj(&[
            ("cb", jstr("interp")),
            ("k", k.to_string()),
            ("q", jstr(&x.pay())),
            ("q2", jstr(&y.pay())),
            ("ts", jarr_u(target.shape())),
            ("x0", jstr(&x0.pay())),
            ("y0", jstr(&y0.pay())),
            ("row0", jarr_s(&row0v)),
            ("inr", if inx { "1".into() } else { "0".into() }),
            ("inr2", if iny { "1".into() } else { "0".into() }),
            ("left", lx.to_string()),
            ("left2", ly.to_string()),
        ]));
        if self.cfg.fail_at == Some(k) {
            return Err(InterpolateError::OutOfBounds(format!("verif-token-{k}")));
        }
        target.fill(x + y);
        Ok(())
    }
}

// ------------------------------------------------------------------------------------------------
// realising arrays

/// an owned array with the requested layout (C, F, Perm); other layouts give standard layout
pub fn owned_with_layout<T: El>(v: &ArrayViewD<'_, T>, lay: Lay) -> ArrayD<T> {
    match lay {
        Lay::F => {
            let mut a = ArrayD::zeros(IxDyn(v.shape()).f());
            a.assign(v);
            a
        }
        Lay::Perm => {
            let rs: Vec<usize> = v.shape().iter().rev().copied().collect();
            let mut a = ArrayD::<T>::zeros(IxDyn(&rs)).reversed_axes();
            a.assign(v);
            a
        }
        // contiguous in memory: to_owned() keeps the (negative / permuted) strides - an owned array with that layout
        Lay::Rev | Lay::RevTrail | Lay::PermTrail => v.to_owned(),
        _ => v.as_standard_layout().to_owned(),
    }
}

fn side<T: FEl>(s: &Side<T>) -> SingleBoundary<T> {
    match (s.kind, s.val) {
        ("NotAKnot", _) => SingleBoundary::NotAKnot,
        ("Natural", _) => SingleBoundary::Natural,
        ("Clamped", _) => SingleBoundary::Clamped,
        ("FirstDeriv", Some(v)) => SingleBoundary::FirstDeriv(v),
        ("SecondDeriv", Some(v)) => SingleBoundary::SecondDeriv(v),
        _ => panic!("harness: bad side {s:?}"),
    }
}

fn rowb<T: FEl>(r: &RowB<T>) -> RowBoundary<T> {
    match r {
        RowB::Row("NotAKnot") => RowBoundary::NotAKnot,
        RowB::Row("Natural") => RowBoundary::Natural,
        RowB::Row("Clamped") => RowBoundary::Clamped,
        RowB::Mixed(l, r) => RowBoundary::Mixed { left: side(l), right: side(r) },
        _ => panic!("harness: bad row boundary"),
    }
}

pub struct Cfg1<'a, T: El> {
    /// None: default index axis
    pub x: Option<&'a Realized<T>>,
    pub data: &'a Realized<T>,
    pub dtag: &'static str,
    pub store: Store,
}

pub type Box1<'a, T> = Box<dyn Dyn1<T> + 'a>;
pub type Box2<'a, T> = Box<dyn Dyn2<T> + 'a>;

pub struct Built<B> {
    pub out: String,
    pub msg: String,
    pub it: Option<B>,
}

fn built<B, E>(r: std::thread::Result<Result<B, E>>, f: impl FnOnce(E) -> (String, String)) -> Built<B> {
    match r {
        Ok(Ok(b)) => Built { out: "Ok".into(), msg: String::new(), it: Some(b) },
        Ok(Err(e)) => {
            let (k, m) = f(e);
            Built { out: format!("Err:{k}"), msg: m, it: None }
        }
        Err(_) => Built { out: "Panic".into(), msg: last_panic(), it: None },
    }
}

fn na_built<B>() -> Built<B> {
    Built { out: "NA".into(), msg: String::new(), it: None }
}

macro_rules! custom_min {
    ($c:expr, $mk:ident, $cfg:ident, $D:ty) => {
        match $c.min {
            0 => $mk!($cfg, $D, RecBuilder::<0> { cfg: $c.clone() }),
            1 => $mk!($cfg, $D, RecBuilder::<1> { cfg: $c.clone() }),
            2 => $mk!($cfg, $D, RecBuilder::<2> { cfg: $c.clone() }),
            3 => $mk!($cfg, $D, RecBuilder::<3> { cfg: $c.clone() }),
            4 => $mk!($cfg, $D, RecBuilder::<4> { cfg: $c.clone() }),
            _ => na_built(),
        }
    };
}

/// Build with a strategy builder expression for one concrete data dimension type and storage kind.
macro_rules! build1_store {
    ($cfg:ident, $D:ty, $sb:expr) => {{
        let dv = $cfg.data.view();
        match $cfg.store {
            Store::View => {
                let data = match dv.into_dimensionality::<$D>() {
                    Ok(d) => d,
                    Err(_) => return na_built(),
                };
                match $cfg.x {
                    Some(xr) => {
                        let x = match xr.view().into_dimensionality::<Ix1>() {
                            Ok(x) => x,
                            Err(_) => return na_built(),
                        };
                        built(
                            { let _g = crate::dynif::GuardMark::new(); catch_unwind(AssertUnwindSafe(|| {
                                Interp1DBuilder::new(data).x(x).strategy($sb).build().map(|i| Box::new(i) as Box1<'a, T>)
                            })) },
                            berr,
                        )
                    }
                    None => built(
                        { let _g = crate::dynif::GuardMark::new(); catch_unwind(AssertUnwindSafe(|| {
                            Interp1DBuilder::new(data).strategy($sb).build().map(|i| Box::new(i) as Box1<'a, T>)
                        })) },
                        berr,
                    ),
                }
            }
            Store::Owned | Store::Shared => {
                let data = match owned_with_layout(&dv, $cfg.data.lay).into_dimensionality::<$D>() {
                    Ok(d) => d,
                    Err(_) => return na_built(),
                };
                let x = match $cfg.x {
                    Some(xr) => match owned_with_layout(&xr.view(), xr.lay).into_dimensionality::<Ix1>() {
                        Ok(x) => Some(x),
                        Err(_) => return na_built(),
                    },
                    None => None,
                };
                if $cfg.store == Store::Owned {
                    match x {
                        Some(x) => built(
                            { let _g = crate::dynif::GuardMark::new(); catch_unwind(AssertUnwindSafe(|| {
                                Interp1DBuilder::new(data).x(x).strategy($sb).build().map(|i| Box::new(i) as Box1<'a, T>)
                            })) },
                            berr,
                        ),
                        None => built(
                            { let _g = crate::dynif::GuardMark::new(); catch_unwind(AssertUnwindSafe(|| {
                                Interp1DBuilder::new(data).strategy($sb).build().map(|i| Box::new(i) as Box1<'a, T>)
                            })) },
                            berr,
                        ),
                    }
                } else {
                    let data = data.into_shared();
                    match x {
                        Some(x) => built(
                            { let _g = crate::dynif::GuardMark::new(); catch_unwind(AssertUnwindSafe(|| {
                                Interp1DBuilder::new(data)
                                    .x(x.into_shared())
                                    .strategy($sb)
                                    .build()
                                    .map(|i| Box::new(i) as Box1<'a, T>)
                            })) },
                            berr,
                        ),
                        None => built(
                            { let _g = crate::dynif::GuardMark::new(); catch_unwind(AssertUnwindSafe(|| {
                                Interp1DBuilder::new(data).strategy($sb).build().map(|i| Box::new(i) as Box1<'a, T>)
                            })) },
                            berr,
                        ),
                    }
                }
            }
        }
    }};
}

macro_rules! gen_build1 {
    ($fn_lin:ident, $fn_spl:ident, $D:ty) => {
        /// Linear and Custom strategies (any element type)
        pub fn $fn_lin<'a, T: El>(cfg: &Cfg1<'a, T>, strat: &Strat1<T>) -> Built<Box1<'a, T>> {
            match strat {
                Strat1::Linear { ex } => {
                    let ex = *ex;
                    build1_store!(cfg, $D, Linear::new().extrapolate(ex))
                }
                Strat1::Custom(c) => custom_min!(c, build1_store, cfg, $D),
                Strat1::Spline { .. } => na_built(),
            }
        }

        /// all strategies (float element types)
        pub fn $fn_spl<'a, T: FEl>(cfg: &Cfg1<'a, T>, strat: &Strat1<T>) -> Built<Box1<'a, T>> {
            match strat {
                Strat1::Spline { ex, bc } => {
                    let ex = *ex;
                    let mk_bc = || -> Option<BoundaryCondition<T, $D>> {
                        Some(match bc {
                            Bc::Global("NotAKnot") => BoundaryCondition::NotAKnot,
                            Bc::Global("Natural") => BoundaryCondition::Natural,
                            Bc::Global("Clamped") => BoundaryCondition::Clamped,
                            Bc::Global("Periodic") => BoundaryCondition::Periodic,
                            Bc::Individual(rows) => {
                                let a = rows.map(rowb).into_dimensionality::<$D>().ok()?;
                                BoundaryCondition::Individual(a)
                            }
                            _ => return None,
                        })
                    };
                    if mk_bc().is_none() {
                        return na_built();
                    }
                    build1_store!(cfg, $D, CubicSpline::new().extrapolate(ex).boundary(mk_bc().unwrap()))
                }
                _ => $fn_lin(cfg, strat),
            }
        }
    };
}

gen_build1!(build1_lin_ix1, build1_ix1, Ix1);
gen_build1!(build1_lin_ix2, build1_ix2, Ix2);
gen_build1!(build1_lin_ix3, build1_ix3, Ix3);
gen_build1!(build1_lin_ix4, build1_ix4, Ix4);
gen_build1!(build1_lin_ix5, build1_ix5, Ix5);
gen_build1!(build1_lin_ix6, build1_ix6, Ix6);
gen_build1!(build1_lin_dyn, build1_dyn, IxDyn);

/// build a 1-D interpolator (Linear / Custom) for any element type
pub fn build1_lin<'a, T: El>(cfg: &Cfg1<'a, T>, strat: &Strat1<T>) -> Built<Box1<'a, T>> {
    match cfg.dtag {
        "Ix1" => build1_lin_ix1(cfg, strat),
        "Ix2" => build1_lin_ix2(cfg, strat),
        "Ix3" => build1_lin_ix3(cfg, strat),
        "Ix4" => build1_lin_ix4(cfg, strat),
        "Ix5" => build1_lin_ix5(cfg, strat),
        "Ix6" => build1_lin_ix6(cfg, strat),
        "IxDyn" => build1_lin_dyn(cfg, strat),
        _ => na_built(),
    }
}

/// build a 1-D interpolator with any strategy (float element types)
pub fn build1<'a, T: FEl>(cfg: &Cfg1<'a, T>, strat: &Strat1<T>) -> Built<Box1<'a, T>> {
    match cfg.dtag {
        "Ix1" => build1_ix1(cfg, strat),
        "Ix2" => build1_ix2(cfg, strat),
        "Ix3" => build1_ix3(cfg, strat),
        "Ix4" => build1_ix4(cfg, strat),
        "Ix5" => build1_ix5(cfg, strat),
        "Ix6" => build1_ix6(cfg, strat),
        "IxDyn" => build1_dyn(cfg, strat),
        _ => na_built(),
    }
}

/// `Interp1DBuilder::new` on 0-dimensional dynamic data (the only way to hand a rank-0 array to the
/// 1-D builder; static `Ix0` data does not satisfy the bounds of `build`)
pub fn build1_rank0<T: El>(v: T) -> Built<()> {
    built(
        { let _g = crate::dynif::GuardMark::new(); catch_unwind(AssertUnwindSafe(|| {
            let data = ArrayD::from_elem(IxDyn(&[]), v);
            Interp1DBuilder::new(data).build().map(|_| ())
        })) },
        berr,
    )
}

// ------------------------------------------------------------------------------------------------
pub struct Cfg2<'a, T: El> {
    pub x: Option<&'a Realized<T>>,
    pub y: Option<&'a Realized<T>>,
    pub data: &'a Realized<T>,
    pub dtag: &'static str,
    pub store: Store,
}

macro_rules! build2_go {
    ($data:expr, $x:expr, $y:expr, $sb:expr) => {{
        let data = $data;
        match ($x, $y) {
            (Some(x), Some(y)) => built(
                { let _g = crate::dynif::GuardMark::new(); catch_unwind(AssertUnwindSafe(|| {
                    Interp2DBuilder::new(data).x(x).y(y).strategy($sb).build().map(|i| Box::new(i) as Box2<'a, T>)
                })) },
                berr,
            ),
            (Some(x), None) => built(
                { let _g = crate::dynif::GuardMark::new(); catch_unwind(AssertUnwindSafe(|| {
                    Interp2DBuilder::new(data).x(x).strategy($sb).build().map(|i| Box::new(i) as Box2<'a, T>)
                })) },
                berr,
            ),
            (None, Some(y)) => built(
                { let _g = crate::dynif::GuardMark::new(); catch_unwind(AssertUnwindSafe(|| {
                    Interp2DBuilder::new(data).y(y).strategy($sb).build().map(|i| Box::new(i) as Box2<'a, T>)
                })) },
                berr,
            ),
            (None, None) => built(
                { let _g = crate::dynif::GuardMark::new(); catch_unwind(AssertUnwindSafe(|| {
                    Interp2DBuilder::new(data).strategy($sb).build().map(|i| Box::new(i) as Box2<'a, T>)
                })) },
                berr,
            ),
        }
    }};
}

macro_rules! build2_store {
    ($cfg:ident, $D:ty, $sb:expr) => {{
        let dv = $cfg.data.view();
        match $cfg.store {
            Store::View => {
                let data = match dv.into_dimensionality::<$D>() {
                    Ok(d) => d,
                    Err(_) => return na_built(),
                };
                let x = match $cfg.x.map(|r| r.view().into_dimensionality::<Ix1>()) {
                    Some(Ok(x)) => Some(x),
                    Some(Err(_)) => return na_built(),
                    None => None,
                };
                let y = match $cfg.y.map(|r| r.view().into_dimensionality::<Ix1>()) {
                    Some(Ok(y)) => Some(y),
                    Some(Err(_)) => return na_built(),
                    None => None,
                };
                build2_go!(data, x, y, $sb)
            }
            Store::Owned | Store::Shared => {
                let data = match owned_with_layout(&dv, $cfg.data.lay).into_dimensionality::<$D>() {
                    Ok(d) => d,
                    Err(_) => return na_built(),
                };
                let x = match $cfg.x.map(|r| owned_with_layout(&r.view(), r.lay).into_dimensionality::<Ix1>()) {
                    Some(Ok(x)) => Some(x),
                    Some(Err(_)) => return na_built(),
                    None => None,
                };
                let y = match $cfg.y.map(|r| owned_with_layout(&r.view(), r.lay).into_dimensionality::<Ix1>()) {
                    Some(Ok(y)) => Some(y),
                    Some(Err(_)) => return na_built(),
                    None => None,
                };
                if $cfg.store == Store::Owned {
                    build2_go!(data, x, y, $sb)
                } else {
                    build2_go!(data.into_shared(), x.map(|a| a.into_shared()), y.map(|a| a.into_shared()), $sb)
                }
            }
        }
    }};
}

macro_rules! gen_build2 {
    ($fn:ident, $D:ty) => {
        pub fn $fn<'a, T: El>(cfg: &Cfg2<'a, T>, strat: &Strat2) -> Built<Box2<'a, T>> {
            match strat {
                Strat2::Bilinear { ex } => {
                    let ex = *ex;
                    build2_store!(cfg, $D, Bilinear::new().extrapolate(ex))
                }
                Strat2::Custom(c) => custom_min!(c, build2_store, cfg, $D),
            }
        }
    };
}

gen_build2!(build2_ix2, Ix2);
gen_build2!(build2_ix3, Ix3);
gen_build2!(build2_ix4, Ix4);
gen_build2!(build2_ix5, Ix5);
gen_build2!(build2_ix6, Ix6);
gen_build2!(build2_dyn, IxDyn);

pub fn build2<'a, T: El>(cfg: &Cfg2<'a, T>, strat: &Strat2) -> Built<Box2<'a, T>> {
    match cfg.dtag {
        "Ix2" => build2_ix2(cfg, strat),
        "Ix3" => build2_ix3(cfg, strat),
        "Ix4" => build2_ix4(cfg, strat),
        "Ix5" => build2_ix5(cfg, strat),
        "Ix6" => build2_ix6(cfg, strat),
        "IxDyn" => build2_dyn(cfg, strat),
        _ => na_built(),
    }
}

/// `Interp2DBuilder::new` + `build` on data whose rank is below 2 (only dynamic data can reach
/// `build`; for static `Ix1` data only the constructor is callable)
pub fn build2_lowrank<T: El>(shape: &[usize], dynamic: bool) -> Built<()> {
    let shape = shape.to_vec();
    built(
        { let _g = crate::dynif::GuardMark::new(); catch_unwind(AssertUnwindSafe(|| {
            if dynamic {
                let data = ArrayD::<T>::zeros(IxDyn(&shape));
                Interp2DBuilder::new(data).build().map(|_| ())
            } else {
                let data = ndarray::Array1::<T>::zeros(shape.first().copied().unwrap_or(0));
                let _b = Interp2DBuilder::new(data);
                Ok(())
            }
        })) },
        berr,
    )
}

//! Dynamic façade over the statically typed API of ndarray-interp.
//!
//! The crate's generic bounds mention a private trait, so user code (and this harness) can only call
//! the batch entry points with concrete dimension types.  The macros below instantiate every
//! (data dimension type, query dimension type) pair once and expose them behind object-safe traits,
//! so that scenarios can be written against runtime descriptions (shape vectors, tags).
//!
//! The façade never judges: it performs the call, catches panics, and returns what happened.

use crate::el::*;
use ndarray::{
    ArrayBase, ArrayD, ArrayViewD, ArrayViewMutD, Data, DimAdd, Dimension, Ix0, Ix1, Ix2, Ix3, Ix4, Ix5, Ix6, IxDyn,
};
use ndarray_interp::interp1d::{Interp1D, Interp1DStrategy};
use ndarray_interp::interp2d::{Interp2D, Interp2DStrategy};
use ndarray_interp::verif_hooks;
use std::cell::RefCell;
use std::panic::{catch_unwind, AssertUnwindSafe};

#[derive(Clone, Copy, Debug, PartialEq, Eq)]
pub enum Entry {
    Scalar,
    Interp,
    Into,
    Array,
    ArrayInto,
}

impl Entry {
    pub fn name(self) -> &'static str {
        match self {
            Entry::Scalar => "scalar",
            Entry::Interp => "interp",
            Entry::Into => "into",
            Entry::Array => "array",
            Entry::ArrayInto => "array_into",
        }
    }
}

pub const QTAGS: [&str; 6] = ["Ix0", "Ix1", "Ix2", "Ix3", "Ix4", "IxDyn"];

/// One call of a query entry point.
/// `q` (and `q2` for 2-D interpolators) hold the query point(s); for the single-point entry points
/// they are 0-d arrays.  `buf` is the caller's buffer for the `*_into` entry points.
pub struct QCall<'a, 'b, T> {
    pub entry: Entry,
    pub qtag: &'static str,
    pub q: ArrayViewD<'a, T>,
    pub q2: Option<ArrayViewD<'a, T>>,
    pub buf: Option<ArrayViewMutD<'b, T>>,
    /// storage kinds of the query arrays handed to a 2-D interpolator (rank-1 static and dynamic queries only):
    /// 0 view/view, 1 view/owned, 2 owned/view, 3 view/shared, 4 shared/owned, 5 owned/owned, 6 shared/shared
    /// (1-D interpolators: 0 view, 5 owned, 6 shared)
    pub mix: u8,
}

pub struct QOut<T> {
    /// "Ok" | "Err:OutOfBounds" | "Panic" | "NA" (combination not expressible with these types)
    pub out: String,
    pub panic_msg: String,
    /// message carried by an `Err` (the kind is in `out`)
    pub err_msg: String,
    /// the returned array (allocating entry points only)
    pub res: Option<ArrayD<T>>,
    pub hooks: Vec<verif_hooks::Event>,
}

thread_local! {
    static LAST_PANIC: RefCell<String> = const { RefCell::new(String::new()) };
    /// > 0 while a call into the crate under test is in progress (its panics are data)
    static IN_GUARD: std::cell::Cell<usize> = const { std::cell::Cell::new(0) };
}

/// calls into the crate under test that are in flight: thread -> (start, running number)
static IN_FLIGHT: std::sync::Mutex<Vec<(std::thread::ThreadId, std::time::Instant, u64)>> = std::sync::Mutex::new(Vec::new());
static CALL_NO: std::sync::atomic::AtomicU64 = std::sync::atomic::AtomicU64::new(0);

/// marks the dynamic extent of a call into the crate under test
pub struct GuardMark;
impl GuardMark {
    pub fn new() -> Self {
        IN_GUARD.with(|g| g.set(g.get() + 1));
        let n = CALL_NO.fetch_add(1, std::sync::atomic::Ordering::Relaxed);
        if let Ok(mut v) = IN_FLIGHT.lock() {
            v.push((std::thread::current().id(), std::time::Instant::now(), n));
        }
        GuardMark
    }
}
impl Drop for GuardMark {
    fn drop(&mut self) {
        IN_GUARD.with(|g| g.set(g.get().saturating_sub(1)));
        if let Ok(mut v) = IN_FLIGHT.lock() {
            let me = std::thread::current().id();
            if let Some(p) = v.iter().rposition(|e| e.0 == me) {
                v.remove(p);
            }
        }
    }
}

/// Watchdog: a single call into the crate that runs longer than `limit` is a hang of the code under test.
/// The process then writes `<out>.hang` (which call, since when) and exits with status 77, which bin/check
/// reports as a violation (the scenario and seed reproduce it).
pub fn start_watchdog(out: String, scenario: String, limit: std::time::Duration) {
    std::thread::spawn(move || loop {
        std::thread::sleep(std::time::Duration::from_millis(200));
        let stuck = IN_FLIGHT.lock().ok().and_then(|v| v.iter().find(|e| e.1.elapsed() > limit).map(|e| (e.2, e.1.elapsed())));
        if let Some((n, dt)) = stuck {
            let _ = std::fs::write(
                format!("{out}.hang"),
                format!("scenario {scenario}: call number {n} into ndarray-interp has been running for {:.1} s (limit {:.0} s)\n", dt.as_secs_f64(), limit.as_secs_f64()),
            );
            std::process::exit(77);
        }
    });
}

pub fn install_quiet_panic_hook() {
    std::panic::set_hook(Box::new(|info| {
        let msg = if let Some(s) = info.payload().downcast_ref::<&str>() {
            s.to_string()
        } else if let Some(s) = info.payload().downcast_ref::<String>() {
            s.clone()
        } else {
            "<non-string panic>".to_string()
        };
        let loc = info.location().map(|l| format!(" @{}:{}", l.file(), l.line())).unwrap_or_default();
        if IN_GUARD.with(|g| g.get()) == 0 {
            // a panic of the harness itself: a tool error, make it visible
            eprintln!("harness panic: {msg}{loc}");
        }
        LAST_PANIC.with(|p| *p.borrow_mut() = format!("{msg}{loc}"));
    }));
}

pub fn last_panic() -> String {
    LAST_PANIC.with(|p| p.borrow().clone())
}

/// run `f`, catching panics and draining the hook buffer
pub fn guarded<T, R>(f: impl FnOnce() -> Result<R, (String, String)>, wrap: impl FnOnce(R) -> Option<ArrayD<T>>) -> QOut<T> {
    verif_hooks::start();
    let r = {
        let _g = GuardMark::new();
        { let _g = crate::dynif::GuardMark::new(); catch_unwind(AssertUnwindSafe(f)) }
    };
    let hooks = verif_hooks::take();
    match r {
        Ok(Ok(v)) => QOut { out: "Ok".into(), panic_msg: String::new(), err_msg: String::new(), res: wrap(v), hooks },
        Ok(Err((k, m))) => QOut { out: format!("Err:{k}"), panic_msg: String::new(), err_msg: m, res: None, hooks },
        Err(_) => QOut { out: "Panic".into(), panic_msg: last_panic(), err_msg: String::new(), res: None, hooks },
    }
}

pub fn na<T>() -> QOut<T> {
    QOut { out: "NA".into(), panic_msg: String::new(), err_msg: String::new(), res: None, hooks: vec![] }
}

fn ierr(e: ndarray_interp::InterpolateError) -> (String, String) {
    match e {
        ndarray_interp::InterpolateError::OutOfBounds(m) => ("OutOfBounds".to_string(), m),
    }
}

/// what a scenario can do with a built 1-D interpolator
pub trait Dyn1<T: El>: Sync {
    fn query(&self, c: QCall<'_, '_, T>) -> QOut<T>;
    /// `index_point(i)` -> (x payload, row)
    fn index_point(&self, i: usize) -> Option<(T, ArrayD<T>)>;
    fn is_in_range(&self, x: T) -> bool;
    /// `get_index_left_of(x)`; None on panic
    fn index_left_of(&self, x: T) -> (Option<usize>, Vec<verif_hooks::Event>);
    fn data_tag(&self) -> &'static str;
}

pub trait Dyn2<T: El>: Sync {
    fn query(&self, c: QCall<'_, '_, T>) -> QOut<T>;
    fn index_point(&self, i: usize, j: usize) -> Option<(T, T, ArrayD<T>)>;
    fn is_in_range(&self, x: T, y: T) -> (bool, bool);
    fn index_left_of(&self, x: T, y: T) -> (Option<(usize, usize)>, Vec<verif_hooks::Event>);
    fn data_tag(&self) -> &'static str;
}

pub fn dim_tag<D: Dimension + 'static>() -> &'static str {
    use std::any::TypeId;
    let t = TypeId::of::<D>();
    if t == TypeId::of::<Ix0>() {
        "Ix0"
    } else if t == TypeId::of::<Ix1>() {
        "Ix1"
    } else if t == TypeId::of::<Ix2>() {
        "Ix2"
    } else if t == TypeId::of::<Ix3>() {
        "Ix3"
    } else if t == TypeId::of::<Ix4>() {
        "Ix4"
    } else if t == TypeId::of::<Ix5>() {
        "Ix5"
    } else if t == TypeId::of::<Ix6>() {
        "Ix6"
    } else {
        "IxDyn"
    }
}

macro_rules! array_entry_1d {
    ($self:ident, $c:ident, $D:ty, $Dq:ty) => {{
        type Out = <$Dq as DimAdd<<$D as Dimension>::Smaller>>::Output;
        let q = match $c.q.into_dimensionality::<$Dq>() {
            Ok(q) => q,
            Err(_) => return na(),
        };
        match $c.entry {
            Entry::Array => guarded(|| $self.interp_array(&q).map_err(ierr), |a| Some(a.into_dyn())),
            Entry::ArrayInto => {
                let buf = match $c.buf.take().map(|b| b.into_dimensionality::<Out>()) {
                    Some(Ok(b)) => b,
                    _ => return na(),
                };
                guarded(|| $self.interp_array_into(&q, buf).map_err(ierr), |_| None)
            }
            _ => unreachable!(),
        }
    }};
}

macro_rules! array_entry_2d {
    ($self:ident, $c:ident, $D:ty, $Dq:ty) => {{
        type Out = <$Dq as DimAdd<<<$D as Dimension>::Smaller as Dimension>::Smaller>>::Output;
        let q = match $c.q.into_dimensionality::<$Dq>() {
            Ok(q) => q,
            Err(_) => return na(),
        };
        let q2 = match $c.q2.take().map(|q| q.into_dimensionality::<$Dq>()) {
            Some(Ok(q)) => q,
            _ => return na(),
        };
        match $c.entry {
            Entry::Array => guarded(|| $self.interp_array(&q, &q2).map_err(ierr), |a| Some(a.into_dyn())),
            Entry::ArrayInto => {
                let buf = match $c.buf.take().map(|b| b.into_dimensionality::<Out>()) {
                    Some(Ok(b)) => b,
                    _ => return na(),
                };
                guarded(|| $self.interp_array_into(&q, &q2, buf).map_err(ierr), |_| None)
            }
            _ => unreachable!(),
        }
    }};
}

/// like array_entry_1d, with the query array owned (mix 5) or shared (mix 6) instead of a view
macro_rules! array_entry_1d_mixed {
    ($self:ident, $c:ident, $D:ty, $Dq:ty) => {{
        type Out = <$Dq as DimAdd<<$D as Dimension>::Smaller>>::Output;
        let q = match $c.q.into_dimensionality::<$Dq>() {
            Ok(q) => q,
            Err(_) => return na(),
        };
        macro_rules! go {
            ($x:expr) => {
                match $c.entry {
                    Entry::Array => guarded(|| $self.interp_array($x).map_err(ierr), |a| Some(a.into_dyn())),
                    Entry::ArrayInto => {
                        let buf = match $c.buf.take().map(|b| b.into_dimensionality::<Out>()) {
                            Some(Ok(b)) => b,
                            _ => return na(),
                        };
                        guarded(|| $self.interp_array_into($x, buf).map_err(ierr), |_| None)
                    }
                    _ => unreachable!(),
                }
            };
        }
        match $c.mix {
            5 => go!(&q.to_owned()),
            6 => go!(&q.to_owned().into_shared()),
            _ => go!(&q),
        }
    }};
}

/// like array_entry_2d, with the x / y query arrays in different storage kinds (C19: the casts of the fast path
/// name the storage types of both query arrays)
macro_rules! array_entry_2d_mixed {
    ($self:ident, $c:ident, $D:ty, $Dq:ty) => {{
        type Out = <$Dq as DimAdd<<<$D as Dimension>::Smaller as Dimension>::Smaller>>::Output;
        let q = match $c.q.into_dimensionality::<$Dq>() {
            Ok(q) => q,
            Err(_) => return na(),
        };
        let q2 = match $c.q2.take().map(|q| q.into_dimensionality::<$Dq>()) {
            Some(Ok(q)) => q,
            _ => return na(),
        };
        macro_rules! go {
            ($x:expr, $y:expr) => {
                match $c.entry {
                    Entry::Array => guarded(|| $self.interp_array($x, $y).map_err(ierr), |a| Some(a.into_dyn())),
                    Entry::ArrayInto => {
                        let buf = match $c.buf.take().map(|b| b.into_dimensionality::<Out>()) {
                            Some(Ok(b)) => b,
                            _ => return na(),
                        };
                        guarded(|| $self.interp_array_into($x, $y, buf).map_err(ierr), |_| None)
                    }
                    _ => unreachable!(),
                }
            };
        }
        match $c.mix {
            1 => go!(&q, &q2.to_owned()),
            2 => go!(&q.to_owned(), &q2),
            3 => go!(&q, &q2.to_owned().into_shared()),
            4 => go!(&q.to_owned().into_shared(), &q2.to_owned()),
            5 => go!(&q.to_owned(), &q2.to_owned()),
            6 => go!(&q.to_owned().into_shared(), &q2.to_owned().into_shared()),
            _ => go!(&q, &q2),
        }
    }};
}

macro_rules! impl_dyn1 {
    ($D:ty) => {
        impl<Sd, Sx, St, T> Dyn1<T> for Interp1D<Sd, Sx, $D, St>
        where
            T: El,
            Sd: Data<Elem = T> + Sync,
            Sx: Data<Elem = T> + Sync,
            St: Interp1DStrategy<Sd, Sx, $D> + Sync,
            ArrayBase<Sd, $D>: Sync,
            ArrayBase<Sx, Ix1>: Sync,
        {
            fn query(&self, mut c: QCall<'_, '_, T>) -> QOut<T> {
                match c.entry {
                    Entry::Scalar => {
                        let x = match c.q.first() {
                            Some(x) => *x,
                            None => return na(),
                        };
                        <Self as ScalarCall1<T>>::scalar(self, x)
                    }
                    Entry::Interp => {
                        let x = match c.q.first() {
                            Some(x) => *x,
                            None => return na(),
                        };
                        guarded(|| self.interp(x).map_err(ierr), |a| Some(a.into_dyn()))
                    }
                    Entry::Into => {
                        let x = match c.q.first() {
                            Some(x) => *x,
                            None => return na(),
                        };
                        let buf = match c.buf.take().map(|b| b.into_dimensionality::<<$D as Dimension>::Smaller>()) {
                            Some(Ok(b)) => b,
                            _ => return na(),
                        };
                        guarded(|| self.interp_into(x, buf).map_err(ierr), |_| None)
                    }
                    Entry::Array | Entry::ArrayInto => match c.qtag {
                        "Ix0" => array_entry_1d!(self, c, $D, Ix0),
                        "Ix1" => array_entry_1d_mixed!(self, c, $D, Ix1),
                        "Ix2" => array_entry_1d!(self, c, $D, Ix2),
                        "Ix3" => array_entry_1d!(self, c, $D, Ix3),
                        "Ix4" => array_entry_1d!(self, c, $D, Ix4),
                        "IxDyn" => array_entry_1d_mixed!(self, c, $D, IxDyn),
                        _ => na(),
                    },
                }
            }
            fn index_point(&self, i: usize) -> Option<(T, ArrayD<T>)> {
                { let _g = crate::dynif::GuardMark::new(); catch_unwind(AssertUnwindSafe(|| {
                    let (x, row) = Interp1D::index_point(self, i);
                    (x, row.to_owned().into_dyn())
                })) }
                .ok()
            }
            fn is_in_range(&self, x: T) -> bool {
                Interp1D::is_in_range(self, x)
            }
            fn index_left_of(&self, x: T) -> (Option<usize>, Vec<verif_hooks::Event>) {
                verif_hooks::start();
                let r = { let _g = crate::dynif::GuardMark::new(); catch_unwind(AssertUnwindSafe(|| self.get_index_left_of(x))) }.ok();
                (r, verif_hooks::take())
            }
            fn data_tag(&self) -> &'static str {
                dim_tag::<$D>()
            }
        }
    };
}

pub trait ScalarCall1<T> {
    fn scalar(&self, x: T) -> QOut<T>;
}

macro_rules! impl_scalar1_na {
    ($D:ty) => {
        impl<Sd, Sx, St, T> ScalarCall1<T> for Interp1D<Sd, Sx, $D, St>
        where
            T: El,
            Sd: Data<Elem = T>,
            Sx: Data<Elem = T>,
            St: Interp1DStrategy<Sd, Sx, $D>,
        {
            fn scalar(&self, _x: T) -> QOut<T> {
                na()
            }
        }
    };
}

impl<Sd, Sx, St, T> ScalarCall1<T> for Interp1D<Sd, Sx, Ix1, St>
where
    T: El,
    Sd: Data<Elem = T>,
    Sx: Data<Elem = T>,
    St: Interp1DStrategy<Sd, Sx, Ix1>,
{
    fn scalar(&self, x: T) -> QOut<T> {
        guarded(
            || self.interp_scalar(x).map_err(ierr),
            |v| Some(ndarray::arr0(v).into_dyn()),
        )
    }
}
impl_scalar1_na!(Ix2);
impl_scalar1_na!(Ix3);
impl_scalar1_na!(Ix4);
impl_scalar1_na!(Ix5);
impl_scalar1_na!(Ix6);
impl_scalar1_na!(IxDyn);

impl_dyn1!(Ix1);
impl_dyn1!(Ix2);
impl_dyn1!(Ix3);
impl_dyn1!(Ix4);
impl_dyn1!(Ix5);
impl_dyn1!(Ix6);
impl_dyn1!(IxDyn);

// ------------------------------------------------------------------------------------------------
pub trait ScalarCall2<T> {
    fn scalar(&self, x: T, y: T) -> QOut<T>;
}

macro_rules! impl_scalar2_na {
    ($D:ty) => {
        impl<Sd, Sx, Sy, St, T> ScalarCall2<T> for Interp2D<Sd, Sx, Sy, $D, St>
        where
            T: El,
            Sd: Data<Elem = T>,
            Sx: Data<Elem = T>,
            Sy: Data<Elem = T>,
            St: Interp2DStrategy<Sd, Sx, Sy, $D>,
        {
            fn scalar(&self, _x: T, _y: T) -> QOut<T> {
                na()
            }
        }
    };
}

impl<Sd, Sx, Sy, St, T> ScalarCall2<T> for Interp2D<Sd, Sx, Sy, Ix2, St>
where
    T: El,
    Sd: Data<Elem = T>,
    Sx: Data<Elem = T>,
    Sy: Data<Elem = T>,
    St: Interp2DStrategy<Sd, Sx, Sy, Ix2>,
{
    fn scalar(&self, x: T, y: T) -> QOut<T> {
        guarded(
            || self.interp_scalar(x, y).map_err(ierr),
            |v| Some(ndarray::arr0(v).into_dyn()),
        )
    }
}
impl_scalar2_na!(Ix3);
impl_scalar2_na!(Ix4);
impl_scalar2_na!(Ix5);
impl_scalar2_na!(Ix6);
impl_scalar2_na!(IxDyn);

macro_rules! impl_dyn2 {
    ($D:ty) => {
        impl<Sd, Sx, Sy, St, T> Dyn2<T> for Interp2D<Sd, Sx, Sy, $D, St>
        where
            T: El,
            Sd: Data<Elem = T> + Sync,
            Sx: Data<Elem = T> + Sync,
            Sy: Data<Elem = T> + Sync,
            St: Interp2DStrategy<Sd, Sx, Sy, $D> + Sync,
            ArrayBase<Sd, $D>: Sync,
            ArrayBase<Sx, Ix1>: Sync,
            ArrayBase<Sy, Ix1>: Sync,
        {
            fn query(&self, mut c: QCall<'_, '_, T>) -> QOut<T> {
                match c.entry {
                    Entry::Scalar | Entry::Interp | Entry::Into => {
                        let x = match c.q.first() {
                            Some(x) => *x,
                            None => return na(),
                        };
                        let y = match c.q2.as_ref().and_then(|q| q.first()) {
                            Some(y) => *y,
                            None => return na(),
                        };
                        match c.entry {
                            Entry::Scalar => <Self as ScalarCall2<T>>::scalar(self, x, y),
                            Entry::Interp => guarded(|| self.interp(x, y).map_err(ierr), |a| Some(a.into_dyn())),
                            _ => {
                                let buf = match c.buf.take().map(|b| {
                                    b.into_dimensionality::<<<$D as Dimension>::Smaller as Dimension>::Smaller>()
                                }) {
                                    Some(Ok(b)) => b,
                                    _ => return na(),
                                };
                                guarded(|| self.interp_into(x, y, buf).map_err(ierr), |_| None)
                            }
                        }
                    }
                    Entry::Array | Entry::ArrayInto => match c.qtag {
                        "Ix0" => array_entry_2d!(self, c, $D, Ix0),
                        "Ix1" => array_entry_2d_mixed!(self, c, $D, Ix1),
                        "Ix2" => array_entry_2d!(self, c, $D, Ix2),
                        "Ix3" => array_entry_2d!(self, c, $D, Ix3),
                        "Ix4" => array_entry_2d!(self, c, $D, Ix4),
                        "IxDyn" => array_entry_2d_mixed!(self, c, $D, IxDyn),
                        _ => na(),
                    },
                }
            }
            fn index_point(&self, i: usize, j: usize) -> Option<(T, T, ArrayD<T>)> {
                { let _g = crate::dynif::GuardMark::new(); catch_unwind(AssertUnwindSafe(|| {
                    let (x, y, row) = Interp2D::index_point(self, i, j);
                    (x, y, row.to_owned().into_dyn())
                })) }
                .ok()
            }
            fn is_in_range(&self, x: T, y: T) -> (bool, bool) {
                (self.is_in_x_range(x), self.is_in_y_range(y))
            }
            fn index_left_of(&self, x: T, y: T) -> (Option<(usize, usize)>, Vec<verif_hooks::Event>) {
                verif_hooks::start();
                let r = { let _g = crate::dynif::GuardMark::new(); catch_unwind(AssertUnwindSafe(|| self.get_index_left_of(x, y))) }.ok();
                (r, verif_hooks::take())
            }
            fn data_tag(&self) -> &'static str {
                dim_tag::<$D>()
            }
        }
    };
}

impl_dyn2!(Ix2);
impl_dyn2!(Ix3);
impl_dyn2!(Ix4);
impl_dyn2!(Ix5);
impl_dyn2!(Ix6);
impl_dyn2!(IxDyn);

//! Element types, deterministic RNG and hand-written JSON helpers.
//!
//! All numeric payloads are logged as strings (hex bit pattern for floats, decimal for
//! integers): the TLA+ `Json` module truncates non-integral numbers and wraps integers > 2^31.

use ndarray_interp::interp1d::cubic_spline::SplineNum;
use num_traits::{Num, NumCast};
use std::fmt::Debug;
use std::ops::Sub;

pub trait El:
    Copy + Debug + PartialOrd + Num + NumCast + Send + Sync + Sub<Output = Self> + 'static
{
    const NAME: &'static str;
    const IS_FLOAT: bool;
    fn pay(self) -> String;
    fn of_f64(v: f64) -> Self;
    fn as_f64(self) -> f64;
    /// a recognisable value for cells the library must not touch / must overwrite
    fn poison(i: usize) -> Self;
    fn nan() -> Self;
    fn next_up(self) -> Self;
    fn next_down(self) -> Self;
    /// inverse of `pay`
    fn parse(s: &str) -> Self;
}

impl El for f64 {
    const NAME: &'static str = "f64";
    const IS_FLOAT: bool = true;
    fn pay(self) -> String {
        format!("{:016x}", self.to_bits())
    }
    fn of_f64(v: f64) -> Self {
        v
    }
    fn as_f64(self) -> f64 {
        self
    }
    fn poison(i: usize) -> Self {
        // finite, odd-looking, distinct per cell
        -(7.0e77 + (i as f64) * 1.0e63)
    }
    fn nan() -> Self {
        f64::NAN
    }
    fn next_up(self) -> Self {
        f64::next_up(self)
    }
    fn next_down(self) -> Self {
        f64::next_down(self)
    }
    fn parse(s: &str) -> Self {
        f64::from_bits(u64::from_str_radix(s, 16).unwrap_or(0))
    }
}

impl El for f32 {
    const NAME: &'static str = "f32";
    const IS_FLOAT: bool = true;
    fn pay(self) -> String {
        format!("{:08x}", self.to_bits())
    }
    fn of_f64(v: f64) -> Self {
        v as f32
    }
    fn as_f64(self) -> f64 {
        self as f64
    }
    fn poison(i: usize) -> Self {
        -(7.0e30 + (i as f32) * 1.0e24)
    }
    fn nan() -> Self {
        f32::NAN
    }
    fn next_up(self) -> Self {
        f32::next_up(self)
    }
    fn next_down(self) -> Self {
        f32::next_down(self)
    }
    fn parse(s: &str) -> Self {
        f32::from_bits(u32::from_str_radix(s, 16).unwrap_or(0))
    }
}

macro_rules! int_el {
    ($t:ty, $name:expr) => {
        impl El for $t {
            const NAME: &'static str = $name;
            const IS_FLOAT: bool = false;
            fn pay(self) -> String {
                format!("{}", self)
            }
            fn of_f64(v: f64) -> Self {
                v as $t
            }
            fn as_f64(self) -> f64 {
                self as f64
            }
            fn poison(i: usize) -> Self {
                -(777_000 + i as $t)
            }
            fn nan() -> Self {
                0
            }
            fn next_up(self) -> Self {
                self + 1
            }
            fn next_down(self) -> Self {
                self - 1
            }
            fn parse(s: &str) -> Self {
                s.parse().unwrap_or(0)
            }
        }
    };
}
int_el!(i32, "i32");
int_el!(i64, "i64");

/// float element types usable with the cubic spline strategy
pub trait FEl: El + SplineNum {}
impl FEl for f64 {}
impl FEl for f32 {}

// ---------------------------------------------------------------------------------------------
/// xoshiro256** seeded through splitmix64
#[derive(Clone)]
pub struct Rng {
    s: [u64; 4],
}

impl Rng {
    pub fn new(seed: u64) -> Self {
        let mut z = seed.wrapping_add(0x9E3779B97F4A7C15);
        let mut s = [0u64; 4];
        for v in s.iter_mut() {
            z = z.wrapping_add(0x9E3779B97F4A7C15);
            let mut x = z;
            x = (x ^ (x >> 30)).wrapping_mul(0xBF58476D1CE4E5B9);
            x = (x ^ (x >> 27)).wrapping_mul(0x94D049BB133111EB);
            *v = x ^ (x >> 31);
        }
        Rng { s }
    }
    pub fn u64(&mut self) -> u64 {
        let r = self.s[1].wrapping_mul(5).rotate_left(7).wrapping_mul(9);
        let t = self.s[1] << 17;
        self.s[2] ^= self.s[0];
        self.s[3] ^= self.s[1];
        self.s[1] ^= self.s[2];
        self.s[0] ^= self.s[3];
        self.s[2] ^= t;
        self.s[3] = self.s[3].rotate_left(45);
        r
    }
    /// uniform in 0..n (n > 0)
    pub fn below(&mut self, n: usize) -> usize {
        (self.u64() % (n as u64)) as usize
    }
    /// uniform in lo..=hi
    pub fn range(&mut self, lo: i64, hi: i64) -> i64 {
        lo + (self.u64() % ((hi - lo + 1) as u64)) as i64
    }
    /// uniform in [0,1) with 53 random bits
    pub fn unit(&mut self) -> f64 {
        (self.u64() >> 11) as f64 / (1u64 << 53) as f64
    }
    pub fn uniform(&mut self, lo: f64, hi: f64) -> f64 {
        lo + (hi - lo) * self.unit()
    }
    pub fn bool(&mut self) -> bool {
        self.u64() & 1 == 1
    }
    pub fn pick<'a, A>(&mut self, v: &'a [A]) -> &'a A {
        &v[self.below(v.len())]
    }
    /// k / 2^bits with |k| < 2^mag_bits: a value on a dyadic grid (exactly representable)
    pub fn dyadic(&mut self, mag_bits: u32, bits: u32) -> f64 {
        let k = self.range(-(1i64 << mag_bits) + 1, (1i64 << mag_bits) - 1);
        k as f64 / (1u64 << bits) as f64
    }
    pub fn shuffle<A>(&mut self, v: &mut [A]) {
        for i in (1..v.len()).rev() {
            let j = self.below(i + 1);
            v.swap(i, j);
        }
    }
}

// ---------------------------------------------------------------------------------------------
pub fn jstr(s: &str) -> String {
    let mut o = String::with_capacity(s.len() + 2);
    o.push('"');
    for c in s.chars() {
        match c {
            '"' => o.push_str("\\\""),
            '\\' => o.push_str("\\\\"),
            '\n' => o.push_str("\\n"),
            '\r' => o.push_str("\\r"),
            '\t' => o.push_str("\\t"),
            c if (c as u32) < 0x20 => o.push(' '),
            c => o.push(c),
        }
    }
    o.push('"');
    o
}

pub fn jarr_s(v: &[String]) -> String {
    let mut o = String::from("[");
    for (i, s) in v.iter().enumerate() {
        if i > 0 {
            o.push(',');
        }
        o.push_str(&jstr(s));
    }
    o.push(']');
    o
}

pub fn jarr_raw(v: &[String]) -> String {
    format!("[{}]", v.join(","))
}

pub fn jarr_u(v: &[usize]) -> String {
    let s: Vec<String> = v.iter().map(|x| x.to_string()).collect();
    format!("[{}]", s.join(","))
}

pub fn jarr_i(v: &[isize]) -> String {
    let s: Vec<String> = v.iter().map(|x| x.to_string()).collect();
    format!("[{}]", s.join(","))
}

/// `{"s":[shape],"v":[payloads in logical row-major order]}`
pub fn jarr<T: El, S: ndarray::Data<Elem = T>, D: ndarray::Dimension>(
    a: &ndarray::ArrayBase<S, D>,
) -> String {
    let v: Vec<String> = a.iter().map(|x| x.pay()).collect();
    format!("{{\"s\":{},\"v\":{}}}", jarr_u(a.shape()), jarr_s(&v))
}

/// an object from key / raw-json-value pairs
pub fn jobj(kv: &[(&str, String)]) -> String {
    let mut o = String::from("{");
    for (i, (k, v)) in kv.iter().enumerate() {
        if i > 0 {
            o.push(',');
        }
        o.push_str(&jstr(k));
        o.push(':');
        o.push_str(v);
    }
    o.push('}');
    o
}

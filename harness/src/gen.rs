//! Input generators shared by the scenarios (axes, data, queries).  Everything is driven by the
//! seeded `Rng`; nothing here knows what the right answer is.

use crate::el::*;
use ndarray::{ArrayD, IxDyn};

pub const AXIS_CLASSES: [&str; 9] = ["unit", "uniform", "geometric", "clustered", "random", "mixed", "dyadic", "indexlike", "meanfirst"];

/// Uneven axes with a "coincidental" global structure that cheap shortcuts may mistake for an even / index axis:
/// `index_like`: first knot a, last knot a + (n-1) (a = 0 half of the time), interior knots uneven;
/// `mean_first`: the first step equals the mean step although the axis is uneven.
/// Knots lie on a dyadic grid (exact in f32 and f64); neighbouring steps differ by a factor of at most 8.
pub fn axis_coincidence(rng: &mut Rng, n: usize, mean_first: bool) -> Vec<f64> {
    if n < 4 {
        // too short to be uneven with the required coincidence: plain unit axis
        return (0..n).map(|i| i as f64).collect();
    }
    for _ in 0..200 {
        let mut steps: Vec<f64> = (0..n - 1).map(|_| *rng.pick(&[0.5, 0.75, 1.0, 1.25, 1.5, 2.0])).collect();
        if mean_first {
            steps[0] = 1.0;
        }
        let want = (n - 1) as f64;
        let others: f64 = steps[..n - 2].iter().sum();
        let last = want - others;
        if !(0.25..=4.0).contains(&last) {
            continue;
        }
        steps[n - 2] = last;
        if steps.iter().all(|&s| (s - 1.0).abs() < 1e-12) {
            continue; // accidentally even
        }
        // index-like axes start at exactly 0 (and end at exactly n-1); the other kind starts anywhere
        let a = if !mean_first { 0.0 } else { rng.range(-6, 6) as f64 * 0.5 };
        let mut x = vec![a];
        for s in &steps {
            let l = *x.last().unwrap();
            x.push(l + s);
        }
        return x;
    }
    (0..n).map(|i| i as f64).collect()
}

/// a strictly increasing axis of n >= 1 points of the given spacing class (as f64)
pub fn axis_f64(rng: &mut Rng, n: usize, class: &str) -> Vec<f64> {
    let mut x = Vec::with_capacity(n);
    match class {
        "unit" => {
            let s = rng.range(-5, 5) as f64;
            for i in 0..n {
                x.push(s + i as f64);
            }
        }
        "uniform" => {
            let s = rng.uniform(-10.0, 10.0);
            let h = *rng.pick(&[0.1, 0.3, 1.0 / 3.0, 0.7, 2.5, 1e-3, 37.0]);
            for i in 0..n {
                x.push(s + h * i as f64);
            }
        }
        "geometric" => {
            let r = rng.uniform(1.05, 2.0);
            let mut v = rng.uniform(0.01, 1.0);
            let neg = rng.bool();
            let mut t = vec![];
            for _ in 0..n {
                t.push(v);
                v *= r;
            }
            if neg {
                // negative, still increasing
                t = t.iter().rev().map(|a| -a).collect();
            }
            x = t;
        }
        "clustered" => {
            // groups of knots 1..4 ulps apart, separated by larger gaps
            let mut v = rng.uniform(-3.0, 3.0);
            for i in 0..n {
                x.push(v);
                if i % 3 == 2 || rng.below(4) == 0 {
                    v += rng.uniform(0.1, 2.0);
                } else {
                    for _ in 0..(1 + rng.below(4)) {
                        v = v.next_up();
                    }
                }
            }
        }
        "mixed" => {
            // magnitudes from 1e-3 to 1e6 with a bounded mesh ratio between neighbours
            let mut v = rng.uniform(-2.0, 2.0);
            let mut h = rng.uniform(1e-3, 1e-2);
            for _ in 0..n {
                x.push(v);
                v += h;
                h *= rng.uniform(0.5, 4.0);
                if h > 1e5 {
                    h = 1e5;
                }
            }
        }
        "dyadic" => {
            // knots on a 2^-6 grid with spacings between 2^-6 and 1 (mesh ratio <= 2^6)
            let mut k: i64 = rng.range(-200, 200);
            for _ in 0..n {
                x.push(k as f64 / 64.0);
                k += rng.range(1, 64);
            }
        }
        "indexlike" => x = axis_coincidence(rng, n, false),
        "meanfirst" => x = axis_coincidence(rng, n, true),
        _ => {
            // "random": sorted random points with a bounded mesh ratio (<= 2^6)
            let mut v = rng.uniform(-50.0, 50.0);
            let base = rng.uniform(0.05, 3.0);
            for _ in 0..n {
                x.push(v);
                v += base * rng.uniform(1.0, 60.0) / 8.0;
            }
        }
    }
    x
}

/// convert to the element type; None when the conversion destroys strict monotonicity
pub fn axis_as<T: El>(x: &[f64]) -> Option<Vec<T>> {
    let v: Vec<T> = x.iter().map(|&a| T::of_f64(a)).collect();
    for w in v.windows(2) {
        if !(w[0] < w[1]) {
            return None;
        }
    }
    Some(v)
}

pub fn axis<T: El>(rng: &mut Rng, n: usize, class: &str) -> Vec<T> {
    for _ in 0..50 {
        if let Some(v) = axis_as::<T>(&axis_f64(rng, n, class)) {
            return v;
        }
    }
    // fall back to a unit axis (always representable)
    (0..n).map(|i| T::of_f64(i as f64)).collect()
}

pub const DATA_CLASSES: [&str; 4] = ["uniform", "dyadic", "mixed", "small"];

pub fn value_f64(rng: &mut Rng, class: &str) -> f64 {
    match class {
        "dyadic" => rng.dyadic(12, 6),
        "mixed" => {
            let e = rng.range(-20, 20);
            let m = rng.uniform(1.0, 2.0);
            let s = if rng.bool() { 1.0 } else { -1.0 };
            s * m * (2.0f64).powi(e as i32)
        }
        "small" => rng.range(-3, 3) as f64,
        _ => rng.uniform(-100.0, 100.0),
    }
}

pub fn data<T: El>(rng: &mut Rng, shape: &[usize], class: &str) -> ArrayD<T> {
    let n: usize = shape.iter().product();
    let v: Vec<T> = (0..n).map(|_| T::of_f64(value_f64(rng, class))).collect();
    ArrayD::from_shape_vec(IxDyn(shape), v).expect("data shape")
}

/// Deterministic rotation of (ownership, data layout, axis layout) over the builds of a run: every second build is
/// plain (owned, standard layout), the others walk through the non-standard combinations, so that every scenario
/// exercises reversed / strided / permuted views and owned arrays with unusual strides as data AND as axis,
/// whatever the seed.
pub fn next_layout() -> (crate::build::Store, crate::lay::Lay, crate::lay::Lay) {
    use crate::build::Store::*;
    use crate::lay::Lay::*;
    static COUNTER: std::sync::atomic::AtomicUsize = std::sync::atomic::AtomicUsize::new(0);
    const TABLE: [(crate::build::Store, crate::lay::Lay, crate::lay::Lay); 12] = [
        (View, Rev, Rev),
        (Owned, F, C),
        (View, PermTrail, Strided),
        (Owned, Rev, Rev),
        (View, RevTrail, C),
        (Shared, Perm, C),
        (View, Strided, Window),
        (Owned, PermTrail, C),
        (View, F, Rev),
        (Owned, RevTrail, Rev),
        (View, Window, C),
        (View, Perm, Strided),
    ];
    let c = COUNTER.fetch_add(1, std::sync::atomic::Ordering::Relaxed);
    if c % 2 == 0 {
        (Owned, C, C)
    } else {
        TABLE[(c / 2) % TABLE.len()]
    }
}

pub const TRAILING: [&[usize]; 6] = [&[], &[3], &[2, 2], &[1], &[2, 1, 2], &[4]];

/// in-range queries: every knot, both neighbouring floats (clamped into the range), mid points, random
pub fn queries_in_range<T: El>(rng: &mut Rng, x: &[T], n_random: usize) -> Vec<T> {
    let lo = x[0];
    let hi = x[x.len() - 1];
    let mut q = vec![];
    for &k in x {
        q.push(k);
        if T::IS_FLOAT {
            let u = k.next_up();
            if u <= hi {
                q.push(u);
            }
            let d = k.next_down();
            if d >= lo {
                q.push(d);
            }
        }
    }
    for w in x.windows(2) {
        let m = T::of_f64(w[0].as_f64() / 2.0 + w[1].as_f64() / 2.0);
        if m >= lo && m <= hi {
            q.push(m);
        }
    }
    for _ in 0..n_random {
        let v = T::of_f64(rng.uniform(lo.as_f64(), hi.as_f64()));
        if v >= lo && v <= hi {
            q.push(v);
        }
    }
    q
}

/// finite queries outside the range: adjacent floats of both ends, up to `spans` spans away
pub fn queries_outside<T: El>(rng: &mut Rng, x: &[T], spans: f64, n_random: usize) -> Vec<T> {
    let lo = x[0];
    let hi = x[x.len() - 1];
    let span = hi.as_f64() - lo.as_f64();
    let mut q = vec![];
    if T::IS_FLOAT {
        q.push(lo.next_down());
        q.push(hi.next_up());
    } else {
        q.push(lo.next_down());
        q.push(hi.next_up());
    }
    for _ in 0..n_random {
        let d = rng.uniform(0.0, spans) * span;
        let v = if rng.bool() { T::of_f64(hi.as_f64() + d) } else { T::of_f64(lo.as_f64() - d) };
        if v < lo || v > hi {
            q.push(v);
        }
    }
    q.push(T::of_f64(hi.as_f64() + spans * span));
    q.push(T::of_f64(lo.as_f64() - spans * span));
    q.retain(|v| v.as_f64().is_finite());
    q
}

/// finite queries VERY far outside the range (extrapolation must continue the end polynomial for every finite query):
/// beyond 2^53 units (where x + 1 == x), 1e30 and - unless the result grows cubically - 1e150; f32: 2^25, 1e9 / 1e15
pub fn queries_far<T: El>(x: &[T], cubic: bool) -> Vec<T> {
    if !T::IS_FLOAT {
        return vec![];
    }
    let mags: Vec<f64> = match (T::NAME, cubic) {
        ("f64", false) => vec![18014398509481984.0, 1.2e18, 1e30, 1e150],
        ("f64", true) => vec![18014398509481984.0, 1.2e18, 1e30],
        ("f32", false) => vec![33554432.0, 1e9, 1e15],
        _ => vec![33554432.0],
    };
    let lo = x[0];
    let hi = x[x.len() - 1];
    let mut q = vec![];
    for m in mags {
        for v in [T::of_f64(m), T::of_f64(-m)] {
            if v.as_f64().is_finite() && (v > hi || v < lo) {
                q.push(v);
            }
        }
    }
    q
}

/// strictly increasing axis whose steps are within a global ratio `max_ratio` of each other;
/// `grid_bits` > 0 puts every knot on the dyadic grid 2^-grid_bits (exactly representable)
pub fn axis_mesh(rng: &mut Rng, n: usize, max_ratio: f64, grid_bits: u32) -> Vec<f64> {
    let mut x = Vec::with_capacity(n);
    if grid_bits > 0 {
        let g = (1u64 << grid_bits) as f64;
        let mut k: i64 = rng.range(-300, 300);
        let unit = rng.range(1, 4);
        for _ in 0..n {
            x.push(k as f64 / g);
            k += unit * rng.range(1, max_ratio as i64);
        }
    } else {
        let base = *rng.pick(&[1e-3, 0.1, 1.0, 7.3, 1e3, 9.5e-10, 3.0e-7, 2.5e8]);
        let mut v = rng.uniform(-20.0, 20.0) * base;
        for _ in 0..n {
            x.push(v);
            v += base * rng.uniform(1.0, max_ratio);
        }
    }
    x
}

/// cubic with small dyadic coefficients evaluated exactly on a dyadic grid.
/// Returns coefficient numerators a_j (coefficient = a_j / 2^cbits).
pub struct DyPoly {
    pub a: [i64; 4],
    pub cbits: u32,
}

impl DyPoly {
    pub fn random(rng: &mut Rng, degree: usize, amax: i64, cbits: u32) -> Self {
        let mut a = [0i64; 4];
        for (j, c) in a.iter_mut().enumerate() {
            if j <= degree {
                *c = rng.range(-amax, amax);
            }
        }
        if a[degree] == 0 {
            a[degree] = 1;
        }
        DyPoly { a, cbits }
    }
    pub fn coef(&self, j: usize) -> f64 {
        self.a[j] as f64 / (1u64 << self.cbits) as f64
    }
    /// exact for grid points k/2^g as long as the numerators stay below 2^53 (checked)
    pub fn eval(&self, x: f64) -> f64 {
        // Horner in f64 is exact here because every intermediate is a dyadic rational with few bits;
        // the TLA+ side re-verifies data = p(x) exactly, so an inexact evaluation is caught as a tool error.
        let c: Vec<f64> = (0..4).map(|j| self.coef(j)).collect();
        c[0] + x * c[1] + x * x * c[2] + x * x * x * c[3]
    }
    pub fn d1(&self, x: f64) -> f64 {
        self.coef(1) + 2.0 * self.coef(2) * x + 3.0 * self.coef(3) * x * x
    }
    pub fn d2(&self, x: f64) -> f64 {
        2.0 * self.coef(2) + 6.0 * self.coef(3) * x
    }
}

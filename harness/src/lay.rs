//! Memory layouts: the same logical contents realised with different strides / ownership.

use crate::el::*;
use ndarray::{ArrayD, ArrayViewD, ArrayViewMutD, IxDyn, ShapeBuilder, Slice};

#[derive(Clone, Copy, Debug, PartialEq, Eq)]
pub enum Lay {
    /// owned, standard (C / row-major) layout
    C,
    /// Fortran (column-major) layout
    F,
    /// every 2nd element of a larger array, starting at offset 1 on every axis
    Strided,
    /// all axes reversed (negative strides)
    Rev,
    /// axes permuted: a transposed view of an array stored with reversed axis order
    Perm,
    /// a C-order window inside a larger allocation (one cell margin on every side)
    Window,
    /// every axis but the first reversed: lanes (axis 0 removed) are contiguous in memory, but not in logical order
    RevTrail,
    /// the trailing axes stored in reversed order (axis 0 in place): lanes are contiguous, column-major
    PermTrail,
}

pub const ALL_LAYS: [Lay; 8] = [Lay::C, Lay::F, Lay::Strided, Lay::Rev, Lay::Perm, Lay::Window, Lay::RevTrail, Lay::PermTrail];

impl Lay {
    pub fn name(self) -> &'static str {
        match self {
            Lay::C => "C",
            Lay::F => "F",
            Lay::Strided => "Strided",
            Lay::Rev => "Rev",
            Lay::Perm => "Perm",
            Lay::Window => "Window",
            Lay::RevTrail => "RevTrail",
            Lay::PermTrail => "PermTrail",
        }
    }
}

/// margins / strides are applied to the first and the last axis only (keeps allocations small)
fn edge(ax: usize, rank: usize) -> bool {
    ax == 0 || ax + 1 == rank
}

/// axis permutation of PermTrail: axis 0 stays, the trailing axes are reversed
fn perm_trail(rank: usize) -> Vec<usize> {
    if rank == 0 {
        return vec![];
    }
    let mut p = vec![0usize];
    p.extend((1..rank).rev());
    p
}

/// A backing allocation plus the recipe to obtain the logical array as a view of it
pub struct Realized<T> {
    pub backing: ArrayD<T>,
    pub lay: Lay,
    pub shape: Vec<usize>,
}

impl<T: El> Realized<T> {
    /// cells outside the logical view are filled with `El::poison(memory index)`
    pub fn new(logical: &ArrayD<T>, lay: Lay) -> Self {
        let shape = logical.shape().to_vec();
        let bshape: Vec<usize> = match lay {
            Lay::C | Lay::F | Lay::Rev | Lay::RevTrail => shape.clone(),
            Lay::PermTrail => perm_trail(shape.len()).iter().map(|&a| shape[a]).collect(),
            Lay::Strided => shape.iter().enumerate().map(|(i, &n)| if edge(i, shape.len()) { 2 * n + 1 } else { n }).collect(),
            Lay::Perm => shape.iter().rev().copied().collect(),
            Lay::Window => shape.iter().enumerate().map(|(i, &n)| if edge(i, shape.len()) { n + 2 } else { n }).collect(),
        };
        let mut backing: ArrayD<T> = match lay {
            Lay::F => ArrayD::zeros(IxDyn(&bshape).f()),
            _ => ArrayD::zeros(IxDyn(&bshape)),
        };
        if let Some(s) = backing.as_slice_memory_order_mut() {
            for (i, c) in s.iter_mut().enumerate() {
                *c = T::poison(i);
            }
        }
        let mut r = Realized { backing, lay, shape };
        r.view_mut().assign(logical);
        r
    }

    pub fn view(&self) -> ArrayViewD<'_, T> {
        let v = self.backing.view();
        match self.lay {
            Lay::C | Lay::F => v,
            Lay::Strided => {
                let shape = self.shape.clone();
                let r = shape.len();
                v.slice_each_axis_move_compat(|ax, _| if edge(ax, r) { Slice::new(1, Some(1 + 2 * shape[ax] as isize), 2) } else { Slice::new(0, None, 1) })
            }
            Lay::Rev => v.slice_each_axis_move_compat(|_, _| Slice::new(0, None, -1)),
            Lay::RevTrail => v.slice_each_axis_move_compat(|ax, _| Slice::new(0, None, if ax == 0 { 1 } else { -1 })),
            Lay::Perm => v.reversed_axes(),
            Lay::PermTrail => {
                let p = perm_trail(self.shape.len());
                if p.is_empty() { v } else { v.permuted_axes(IxDyn(&p)) }
            }
            Lay::Window => {
                let shape = self.shape.clone();
                let r = shape.len();
                v.slice_each_axis_move_compat(|ax, _| if edge(ax, r) { Slice::new(1, Some(1 + shape[ax] as isize), 1) } else { Slice::new(0, None, 1) })
            }
        }
    }

    pub fn view_mut(&mut self) -> ArrayViewMutD<'_, T> {
        let lay = self.lay;
        let shape = self.shape.clone();
        let mut v = self.backing.view_mut();
        match lay {
            Lay::C | Lay::F => v,
            Lay::Strided => {
                for (ax, &n) in shape.iter().enumerate() {
                    if edge(ax, shape.len()) {
                        v.slice_axis_inplace(ndarray::Axis(ax), Slice::new(1, Some(1 + 2 * n as isize), 2));
                    }
                }
                v
            }
            Lay::Rev => {
                for ax in 0..shape.len() {
                    v.slice_axis_inplace(ndarray::Axis(ax), Slice::new(0, None, -1));
                }
                v
            }
            Lay::RevTrail => {
                for ax in 1..shape.len() {
                    v.slice_axis_inplace(ndarray::Axis(ax), Slice::new(0, None, -1));
                }
                v
            }
            Lay::Perm => v.reversed_axes(),
            Lay::PermTrail => {
                let p = perm_trail(shape.len());
                if p.is_empty() { v } else { v.permuted_axes(IxDyn(&p)) }
            }
            Lay::Window => {
                for (ax, &n) in shape.iter().enumerate() {
                    if edge(ax, shape.len()) {
                        v.slice_axis_inplace(ndarray::Axis(ax), Slice::new(1, Some(1 + n as isize), 1));
                    }
                }
                v
            }
        }
    }

    /// an *owned* array with this layout (C, F, Perm, PermTrail; to_owned() keeps the strides of the reversed
    /// layouts because they are contiguous in memory; Strided and Window become standard layout)
    pub fn into_owned_layout(self) -> ArrayD<T> {
        match self.lay {
            Lay::C | Lay::F => self.backing,
            Lay::Perm => self.backing.reversed_axes(),
            Lay::PermTrail => {
                let p = perm_trail(self.shape.len());
                if p.is_empty() { self.backing } else { self.backing.permuted_axes(IxDyn(&p)) }
            }
            _ => self.view().to_owned(),
        }
    }

    /// the backing allocation in memory order
    pub fn cells(&self) -> Vec<T> {
        self.backing
            .as_slice_memory_order()
            .map(|s| s.to_vec())
            .unwrap_or_default()
    }

    /// `(offset of the first logical element, strides)` of the view, in elements of the backing allocation
    pub fn window(&self) -> (usize, Vec<isize>) {
        let v = self.view();
        let base = self
            .backing
            .as_slice_memory_order()
            .map(|s| s.as_ptr())
            .unwrap_or(self.backing.as_ptr());
        let off = if v.is_empty() {
            0
        } else {
            (v.as_ptr() as usize - base as usize) / std::mem::size_of::<T>()
        };
        (off, v.strides().to_vec())
    }
}

/// helper: slice every axis of a dynamic view
pub trait SliceEachAxisCompat<'a, T> {
    fn slice_each_axis_move_compat(self, f: impl FnMut(usize, usize) -> Slice) -> ArrayViewD<'a, T>;
}

impl<'a, T> SliceEachAxisCompat<'a, T> for ArrayViewD<'a, T> {
    fn slice_each_axis_move_compat(mut self, mut f: impl FnMut(usize, usize) -> Slice) -> ArrayViewD<'a, T> {
        for ax in 0..self.ndim() {
            let len = self.len_of(ndarray::Axis(ax));
            self.slice_axis_inplace(ndarray::Axis(ax), f(ax, len));
        }
        self
    }
}

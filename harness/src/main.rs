//! Conformance driver: runs a scenario against the real crate and writes the ndjson trace that
//! TLC validates against /verif/spec/TraceNdInterp.tla.
//!
//! usage: driver <scenario> --out <file> [--seed N] [--tier quick|thorough] [--cases <file>]

mod build;
mod dynif;
mod el;
mod gen;
mod lay;
mod rec;
mod s_api;
mod s_bilinear;
mod s_linear;
mod s_misc;
mod s_script;
mod s_spline;
mod scen;

use el::Rng;

fn main() {
    let args: Vec<String> = std::env::args().collect();
    if args.len() < 2 {
        eprintln!("usage: driver <scenario> --out <file> [--seed N] [--tier quick|thorough] [--cases <file>]");
        std::process::exit(2);
    }
    let scenario = args[1].clone();
    let mut out = String::from("trace.ndjson");
    let mut seed: u64 = 1;
    let mut tier = String::from("quick");
    let mut cases: Option<String> = None;
    let mut i = 2;
    while i < args.len() {
        match args[i].as_str() {
            "--out" => {
                out = args[i + 1].clone();
                i += 2;
            }
            "--seed" => {
                seed = args[i + 1].parse().unwrap_or(1);
                i += 2;
            }
            "--tier" => {
                tier = args[i + 1].clone();
                i += 2;
            }
            "--cases" => {
                cases = Some(args[i + 1].clone());
                i += 2;
            }
            a => {
                eprintln!("unknown argument {a}");
                std::process::exit(2);
            }
        }
    }
    dynif::install_quiet_panic_hook();
    dynif::start_watchdog(out.clone(), scenario.clone(), std::time::Duration::from_secs(30));
    let thorough = tier == "thorough";
    let mut tr = rec::Trace::new();
    let mut rng = Rng::new(seed ^ 0x5eed_0000);
    match scenario.as_str() {
        "linear" => s_linear::linear(&mut tr, &mut rng, thorough),
        "entries" => s_api::entries(&mut tr, &mut rng, thorough),
        "layouts" => s_api::layouts(&mut tr, &mut rng, thorough),
        "buffers" => s_api::buffers(&mut tr, &mut rng, thorough),
        "custom" => s_api::custom(&mut tr, &mut rng, thorough),
        "casts_mixed" => s_api::casts_mixed(&mut tr, &mut rng, thorough),
        "casts" => s_api::casts(&mut tr, &mut rng, thorough),
        "mono" => s_misc::mono(&mut tr, &mut rng, thorough, cases.as_deref()),
        "lower" => s_misc::lower(&mut tr, &mut rng, thorough, cases.as_deref()),
        "builder" => s_misc::builder(&mut tr, &mut rng, thorough),
        "lanes" => s_misc::lanes(&mut tr, &mut rng, thorough),
        "poison" => s_misc::poison(&mut tr, &mut rng, thorough),
        "units" => s_misc::units(&mut tr, &mut rng, thorough),
        "threads" => s_misc::threads(&mut tr, &mut rng, thorough),
        "script" => s_script::script(&mut tr, cases.as_deref().unwrap_or_else(|| {
            eprintln!("script needs --cases <file>");
            std::process::exit(2)
        })),
        "bilinear" => s_bilinear::bilinear(&mut tr, &mut rng, thorough),
        "spline" => s_spline::spline(&mut tr, &mut rng, thorough),
        "periodic" => s_spline::periodic(&mut tr, &mut rng, thorough),
        "poly" => s_spline::poly(&mut tr, &mut rng, thorough),
        s => {
            eprintln!("unknown scenario {s}");
            std::process::exit(2);
        }
    }
    if let Err(e) = tr.write(&out) {
        eprintln!("cannot write {out}: {e}");
        std::process::exit(2);
    }
    println!("{} events -> {}", tr.lines.len(), out);
}

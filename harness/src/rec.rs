//! The recorder: performs calls through the façade and writes one ndjson event per public call.
//! It never judges; TLC validates the trace against the TLA+ specification.

use crate::build::*;
use crate::dynif::*;
use crate::el::*;
use crate::lay::*;
use ndarray::{ArrayD, IxDyn};
use ndarray_interp::verif_hooks::Event;

pub struct Trace {
    pub lines: Vec<String>,
    next_id: usize,
    pub thread: usize,
    /// storage mix of the x / y query arrays for the next 2-D batch queries (see QCall::mix)
    pub mix: u8,
}

fn hooks_json(h: &[Event]) -> (String, String) {
    let mut casts = vec![];
    let mut lks = vec![];
    for e in h {
        match e {
            Event::Cast { from, to, from_size, to_size, from_align, to_align } => casts.push(jobj(&[
                ("from", jstr(from)),
                ("to", jstr(to)),
                ("fs", from_size.to_string()),
                ("ts", to_size.to_string()),
                ("fa", from_align.to_string()),
                ("ta", to_align.to_string()),
            ])),
            Event::Lookup { path, len, guess, steps, result } => lks.push(jobj(&[
                ("path", jstr(path)),
                ("len", len.to_string()),
                ("guess", guess.to_string()),
                ("steps", steps.to_string()),
                ("res", result.to_string()),
            ])),
        }
    }
    (jarr_raw(&casts), jarr_raw(&lks))
}

pub fn strat1_json<T: El>(s: &Strat1<T>) -> String {
    match s {
        Strat1::Linear { ex } => jobj(&[("k", jstr("Linear")), ("ex", (*ex as u8).to_string())]),
        Strat1::Spline { ex, bc } => {
            let mut kv = vec![("k", jstr("Spline")), ("ex", (*ex as u8).to_string())];
            match bc {
                Bc::Global(g) => kv.push(("bc", jstr(g))),
                Bc::Individual(rows) => {
                    kv.push(("bc", jstr("Individual")));
                    kv.push(("bs", jarr_u(rows.shape())));
                    let rs: Vec<String> = rows
                        .iter()
                        .map(|r| match r {
                            RowB::Row(k) => jarr_s(&["Row".into(), k.to_string(), "".into(), k.to_string(), "".into()]),
                            RowB::Mixed(l, r) => jarr_s(&[
                                "Mixed".into(),
                                l.kind.to_string(),
                                l.val.map(|v| v.pay()).unwrap_or_default(),
                                r.kind.to_string(),
                                r.val.map(|v| v.pay()).unwrap_or_default(),
                            ]),
                        })
                        .collect();
                    kv.push(("rows", jarr_raw(&rs)));
                }
            }
            jobj(&kv)
        }
        Strat1::Custom(c) => custom_json(c),
    }
}

fn custom_json(c: &CustomCfg) -> String {
    jobj(&[
        ("k", jstr("Custom")),
        ("ex", "0".into()),
        ("min", c.min.to_string()),
        ("fb", (c.fail_build as u8).to_string()),
        ("fa", c.fail_at.map(|k| k as isize).unwrap_or(-1).to_string()),
    ])
}

pub fn strat2_json(s: &Strat2) -> String {
    match s {
        Strat2::Bilinear { ex } => jobj(&[("k", jstr("Bilinear")), ("ex", (*ex as u8).to_string())]),
        Strat2::Custom(c) => custom_json(c),
    }
}

fn drain_cb(c: Option<&CustomCfg>) -> String {
    match c {
        Some(c) => {
            let mut l = c.shared.log.lock().unwrap();
            let v: Vec<String> = l.drain(..).collect();
            jarr_raw(&v)
        }
        None => "[]".into(),
    }
}

/// a buffer handed to an `*_into` entry point
pub struct BufSpec {
    pub shape: Vec<usize>,
    pub lay: Lay,
}

impl Trace {
    pub fn new() -> Self {
        Trace { lines: vec![], next_id: 0, thread: 0, mix: 0 }
    }

    pub fn reset(&mut self, scenario: &str) {
        self.lines.push(jobj(&[("ev", jstr("Reset")), ("sc", jstr(scenario))]));
    }

    pub fn fresh_id(&mut self) -> usize {
        self.next_id += 1;
        self.next_id
    }

    /// record a 1-D build; extra = additional raw key/values (e.g. polynomial coefficients)
    #[allow(clippy::too_many_arguments)]
    pub fn build1_event<T: El>(
        &mut self,
        cfg: &Cfg1<'_, T>,
        strat: &Strat1<T>,
        out: &str,
        msg: &str,
        extra: &[(&str, String)],
    ) -> usize {
        let id = self.fresh_id();
        let x: Vec<String> = cfg.x.map(|r| r.view().iter().map(|v| v.pay()).collect()).unwrap_or_default();
        let custom = if let Strat1::Custom(c) = strat { Some(c) } else { None };
        let mut kv = vec![
            ("ev", jstr("B1")),
            ("id", id.to_string()),
            ("el", jstr(T::NAME)),
            ("xdef", (cfg.x.is_none() as u8).to_string()),
            ("x", jarr_s(&x)),
            ("d", jarr(&cfg.data.view())),
            ("dtag", jstr(cfg.dtag)),
            ("store", jstr(cfg.store.name())),
            ("dlay", jstr(cfg.data.lay.name())),
            ("xlay", jstr(cfg.x.map(|r| r.lay.name()).unwrap_or("-"))),
            ("st", strat1_json(strat)),
            ("out", jstr(out)),
            ("msg", jstr(msg)),
            ("cb", drain_cb(custom)),
        ];
        for (k, v) in extra {
            kv.push((k, v.clone()));
        }
        self.lines.push(jobj(&kv));
        id
    }

    pub fn build2_event<T: El>(
        &mut self,
        cfg: &Cfg2<'_, T>,
        strat: &Strat2,
        out: &str,
        msg: &str,
        extra: &[(&str, String)],
    ) -> usize {
        let id = self.fresh_id();
        let x: Vec<String> = cfg.x.map(|r| r.view().iter().map(|v| v.pay()).collect()).unwrap_or_default();
        let y: Vec<String> = cfg.y.map(|r| r.view().iter().map(|v| v.pay()).collect()).unwrap_or_default();
        let custom = if let Strat2::Custom(c) = strat { Some(c) } else { None };
        let mut kv = vec![
            ("ev", jstr("B2")),
            ("id", id.to_string()),
            ("el", jstr(T::NAME)),
            ("xdef", (cfg.x.is_none() as u8).to_string()),
            ("ydef", (cfg.y.is_none() as u8).to_string()),
            ("x", jarr_s(&x)),
            ("y", jarr_s(&y)),
            ("d", jarr(&cfg.data.view())),
            ("dtag", jstr(cfg.dtag)),
            ("store", jstr(cfg.store.name())),
            ("dlay", jstr(cfg.data.lay.name())),
            ("xlay", jstr(cfg.x.map(|r| r.lay.name()).unwrap_or("-"))),
            ("ylay", jstr(cfg.y.map(|r| r.lay.name()).unwrap_or("-"))),
            ("st", strat2_json(strat)),
            ("out", jstr(out)),
            ("msg", jstr(msg)),
            ("cb", drain_cb(custom)),
        ];
        for (k, v) in extra {
            kv.push((k, v.clone()));
        }
        self.lines.push(jobj(&kv));
        id
    }

    /// perform and record one query call on a 1-D or 2-D interpolator
    #[allow(clippy::too_many_arguments)]
    pub fn query<T: El>(
        &mut self,
        id: usize,
        call: &dyn Fn(QCall<'_, '_, T>) -> QOut<T>,
        two_d: bool,
        entry: Entry,
        qtag: &'static str,
        q: &Realized<T>,
        q2: Option<&Realized<T>>,
        buf: Option<BufSpec>,
        custom: Option<&CustomCfg>,
    ) -> String {
        if let Some(c) = custom {
            c.shared.calls.store(0, std::sync::atomic::Ordering::SeqCst);
        }
        let mut bufr: Option<Realized<T>> = buf.as_ref().map(|b| {
            // the logical contents of the buffer are poison as well (distinct from the margin)
            let n: usize = b.shape.iter().product();
            let logical = ArrayD::from_shape_vec(IxDyn(&b.shape), (0..n).map(|i| T::poison(100_000 + i)).collect())
                .expect("buffer shape");
            Realized::new(&logical, b.lay)
        });
        let cells0: Option<Vec<String>> = bufr.as_ref().map(|b| b.cells().iter().map(|v| v.pay()).collect());
        let out = {
            let c = QCall {
                entry,
                qtag,
                q: q.view(),
                q2: q2.map(|r| r.view()),
                buf: bufr.as_mut().map(|b| b.view_mut()),
                mix: self.mix,
            };
            call(c)
        };
        if out.out == "NA" {
            // the combination is not expressible with the static types of the API: nothing was called
            return out.out;
        }
        let (casts, lks) = hooks_json(&out.hooks);
        let mut kv = vec![
            ("ev", jstr(if two_d { "Q2" } else { "Q1" })),
            ("id", id.to_string()),
            ("th", self.thread.to_string()),
            ("en", jstr(entry.name())),
            ("qtag", jstr(qtag)),
            ("qlay", jstr(q.lay.name())),
            ("mix", self.mix.to_string()),
            ("q", jarr(&q.view())),
        ];
        if let Some(q2) = q2 {
            kv.push(("q2", jarr(&q2.view())));
        }
        kv.push(("out", jstr(&out.out)));
        kv.push(("pm", jstr(&out.panic_msg)));
        kv.push(("em", jstr(&out.err_msg)));
        if let Some(r) = &out.res {
            kv.push(("r", jarr(r)));
        }
        if let (Some(b), Some(c0)) = (&bufr, &cells0) {
            let (off, strides) = b.window();
            let c1: Vec<String> = b.cells().iter().map(|v| v.pay()).collect();
            kv.push((
                "buf",
                jobj(&[
                    ("lay", jstr(b.lay.name())),
                    ("s", jarr_u(&b.shape)),
                    ("st", jarr_i(&strides)),
                    ("off", off.to_string()),
                    ("c0", jarr_s(c0)),
                    ("c1", jarr_s(&c1)),
                ]),
            ));
        }
        kv.push(("casts", casts));
        kv.push(("lk", lks));
        kv.push(("cb", drain_cb(custom)));
        self.lines.push(jobj(&kv));
        out.out
    }

    pub fn raw(&mut self, line: String) {
        self.lines.push(line);
    }

    pub fn write(&self, path: &str) -> std::io::Result<()> {
        use std::io::Write;
        let mut f = std::io::BufWriter::new(std::fs::File::create(path)?);
        for l in &self.lines {
            writeln!(f, "{l}")?;
        }
        Ok(())
    }
}

/// a 0-d array holding one query value
pub fn scalar_q<T: El>(v: T) -> Realized<T> {
    Realized::new(&ArrayD::from_elem(IxDyn(&[]), v), Lay::C)
}

pub fn arr_q<T: El>(shape: &[usize], v: Vec<T>, lay: Lay) -> Realized<T> {
    Realized::new(&ArrayD::from_shape_vec(IxDyn(shape), v).expect("query shape"), lay)
}

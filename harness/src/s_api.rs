//! API-shape scenarios: entry points and result shapes (C09), memory layouts (C13), caller buffers
//! (C14), custom strategies (C18), the unchecked cast (C19), accessors.

use crate::build::*;
use crate::dynif::*;
use crate::el::*;
use crate::gen;
use crate::lay::*;
use crate::rec::*;
use crate::scen::*;
use ndarray::{ArrayD, IxDyn};

pub fn new_custom(min: usize, fail_build: bool, fail_at: Option<usize>) -> CustomCfg {
    CustomCfg { min, fail_build, fail_at, shared: RecShared::default() }
}

/// query shapes by tag: (tag, shape)
fn query_shapes(thorough: bool) -> Vec<(&'static str, Vec<usize>)> {
    let mut v: Vec<(&'static str, Vec<usize>)> = vec![
        ("Ix0", vec![]),
        ("Ix1", vec![3]),
        ("Ix1", vec![0]),
        ("Ix2", vec![2, 3]),
        ("Ix2", vec![1, 0]),
        ("Ix3", vec![3, 1, 2]),
        ("Ix4", vec![1, 2, 1, 3]),
        ("IxDyn", vec![]),
        ("IxDyn", vec![3]),
        ("IxDyn", vec![3, 2]),
        ("IxDyn", vec![2, 3, 2]),
    ];
    if thorough {
        v.push(("Ix1", vec![1]));
        v.push(("Ix2", vec![3, 1]));
        v.push(("Ix2", vec![2, 2]));
        v.push(("Ix3", vec![2, 3, 4]));
        v.push(("Ix4", vec![2, 1, 3, 2]));
        v.push(("Ix3", vec![0, 2, 2]));
        v.push(("IxDyn", vec![0]));
        v.push(("IxDyn", vec![1, 2, 1, 2]));
        v.push(("IxDyn", vec![1, 1, 2, 1, 2]));
    }
    v
}

fn fill_from<T: El>(pts: &[T], n: usize, rng: &mut Rng) -> Vec<T> {
    (0..n).map(|_| pts[rng.below(pts.len())]).collect()
}

/// every entry point on a 1-D interpolator over a small pool of query points
fn all_entries_1d<T: El>(tr: &mut Trace, rng: &mut Rng, b: &B1<'_, T>, pts: &[T], scalar_ok: bool, thorough: bool, lays: &[Lay]) {
    for &p in pts {
        if scalar_ok {
            b.q(tr, Entry::Scalar, "-", &scalar_q(p), Lay::C);
        }
        b.q(tr, Entry::Interp, "-", &scalar_q(p), Lay::C);
        b.q(tr, Entry::Into, "-", &scalar_q(p), *rng.pick(lays));
    }
    // query and buffer layouts rotate deterministically so that every layout meets every query rank
    for (k, (tag, shape)) in query_shapes(thorough).into_iter().enumerate() {
        let n: usize = shape.iter().product();
        for r in 0..(if lays.len() > 1 { 2 } else { 1 }) {
            let q = arr_q(&shape, fill_from(pts, n, rng), lays[(k + r * 2) % lays.len()]);
            b.q(tr, Entry::Array, tag, &q, Lay::C);
            b.q(tr, Entry::ArrayInto, tag, &q, lays[(k + r + 1) % lays.len()]);
        }
    }
}

fn all_entries_2d<T: El>(tr: &mut Trace, rng: &mut Rng, b: &B2<'_, T>, px: &[T], py: &[T], scalar_ok: bool, thorough: bool, lays: &[Lay]) {
    for k in 0..px.len().min(py.len()) {
        if scalar_ok {
            b.q(tr, Entry::Scalar, "-", &scalar_q(px[k]), &scalar_q(py[k]), Lay::C);
        }
        b.q(tr, Entry::Interp, "-", &scalar_q(px[k]), &scalar_q(py[k]), Lay::C);
        b.q(tr, Entry::Into, "-", &scalar_q(px[k]), &scalar_q(py[k]), *rng.pick(lays));
    }
    for (k, (tag, shape)) in query_shapes(thorough).into_iter().enumerate() {
        let n: usize = shape.iter().product();
        for r in 0..(if lays.len() > 1 { 3 } else { 1 }) {
            let idx: Vec<usize> = (0..n).map(|_| rng.below(px.len().min(py.len()))).collect();
            // x and y query arrays get different layouts (incl. column-major x with row-major y)
            let qx = arr_q(&shape, idx.iter().map(|&i| px[i]).collect(), lays[(k + r) % lays.len()]);
            let qy = arr_q(&shape, idx.iter().map(|&i| py[i]).collect(), lays[(k + 2 * r + 1) % lays.len()]);
            b.q(tr, Entry::Array, tag, &qx, &qy, Lay::C);
            b.q(tr, Entry::ArrayInto, tag, &qx, &qy, lays[(k + r + 2) % lays.len()]);
        }
    }
}

/// data shapes by (tag, trailing)
fn data_trailings(thorough: bool) -> Vec<(bool, Vec<usize>)> {
    let mut v = vec![
        (false, vec![]),
        (false, vec![2]),
        (false, vec![2, 2]),
        (false, vec![1, 2, 1]),
        (false, vec![2, 1, 1, 2]),
        (false, vec![1, 2, 1, 1, 2]),
        (true, vec![]),
        (true, vec![3]),
        (true, vec![2, 1, 2]),
        (false, vec![0]),
        (false, vec![2, 0]),
    ];
    if thorough {
        v.push((true, vec![1, 2, 1, 1, 2, 1]));
        v.push((true, vec![0, 2]));
        v.push((false, vec![3, 1]));
    }
    v
}

pub fn entries(tr: &mut Trace, rng: &mut Rng, thorough: bool) {
    // buffers and query arrays of the *_into / array entry points rotate through these layouts
    let lays = [Lay::C, Lay::F, Lay::Rev, Lay::Perm, Lay::Window];
    // ---- 1-D
    for (dynamic, trailing) in data_trailings(thorough) {
        for strat_i in 0..3 {
            tr.reset("entries-1d");
            let n = 4 + rng.below(3);
            let x: Vec<f64> = gen::axis::<f64>(rng, n, "random");
            let mut shape = vec![n];
            shape.extend_from_slice(&trailing);
            let data = gen::data::<f64>(rng, &shape, "uniform");
            let dr = real(&data, Lay::C);
            let xr = real1(&x, Lay::C);
            let cfg = Cfg1 { x: Some(&xr), data: &dr, dtag: dtag_for(shape.len(), dynamic), store: Store::Owned };
            let strat = match strat_i {
                0 => Strat1::Linear { ex: false },
                1 => Strat1::Spline { ex: true, bc: Bc::Global("NotAKnot") },
                _ => Strat1::Custom(new_custom(2, false, None)),
            };
            let b = match do_build1(tr, &cfg, &strat, &[]) {
                Some(b) => b,
                None => continue,
            };
            let mut pts = vec![x[0], x[n - 1], x[1], (x[1] + x[2]) / 2.0, (x[0] + x[1]) / 2.0];
            if strat_i == 1 {
                pts.push(x[n - 1] + 1.5);
            }
            all_entries_1d(tr, rng, &b, &pts, shape.len() == 1 && !dynamic, thorough, &lays);
        }
    }
    // ---- 2-D
    for (dynamic, trailing) in data_trailings(thorough) {
        if trailing.len() > 4 && !dynamic {
            continue;
        }
        for strat_i in 0..2 {
            tr.reset("entries-2d");
            let (nx, ny) = (3 + rng.below(2), 2 + rng.below(3));
            let x: Vec<f64> = gen::axis::<f64>(rng, nx, "random");
            let y: Vec<f64> = gen::axis::<f64>(rng, ny, "uniform");
            let mut shape = vec![nx, ny];
            shape.extend_from_slice(&trailing);
            let data = gen::data::<f64>(rng, &shape, "uniform");
            let dr = real(&data, Lay::C);
            let xr = real1(&x, Lay::C);
            let yr = real1(&y, Lay::C);
            let cfg = Cfg2 { x: Some(&xr), y: Some(&yr), data: &dr, dtag: dtag_for(shape.len(), dynamic), store: Store::Owned };
            let strat = if strat_i == 0 { Strat2::Bilinear { ex: false } } else { Strat2::Custom(new_custom(2, false, None)) };
            let b = match do_build2(tr, &cfg, &strat, &[]) {
                Some(b) => b,
                None => continue,
            };
            let px = vec![x[0], x[nx - 1], (x[0] + x[1]) / 2.0, x[1]];
            let py = vec![y[ny - 1], y[0], (y[0] + y[1]) / 2.0, y[1]];
            all_entries_2d(tr, rng, &b, &px, &py, shape.len() == 2 && !dynamic, thorough, &lays);
        }
    }
    // an f32 pass and an out-of-range element inside batches of every rank (C05: fails as a whole)
    tr.reset("entries-oob");
    {
        let x: Vec<f32> = vec![0.5, 1.0, 2.5, 4.0];
        let data = gen::data::<f32>(rng, &[4, 2], "uniform");
        let dr = real(&data, Lay::C);
        let xr = real1(&x, Lay::C);
        let cfg = Cfg1 { x: Some(&xr), data: &dr, dtag: "Ix2", store: Store::Owned };
        for (si, strat) in [Strat1::Linear { ex: false }, Strat1::Spline { ex: false, bc: Bc::Global("Natural") }, Strat1::Spline { ex: false, bc: Bc::Global("Periodic") }]
            .into_iter()
            .enumerate()
        {
            // the periodic strategy needs equal end rows
            let mut pdata = data.clone();
            if si == 2 {
                let first = pdata.index_axis(ndarray::Axis(0), 0).to_owned();
                pdata.index_axis_mut(ndarray::Axis(0), 3).assign(&first);
            }
            let pdr = real(&pdata, Lay::C);
            let cfg = Cfg1 { x: Some(&xr), data: &pdr, dtag: "Ix2", store: Store::Owned };
            if let Some(b) = do_build1(tr, &cfg, &strat, &[]) {
                let pts = vec![0.5f32, 4.0, 1.25, 3.0];
                all_entries_1d(tr, rng, &b, &pts, false, false, &lays);
                let bads = [4.0f32.next_up(), 0.5f32.next_down(), f32::NAN, f32::INFINITY, f32::NEG_INFINITY, 1e30, -3.0e38];
                for (tag, shape) in query_shapes(false) {
                    let n: usize = shape.iter().product();
                    if n == 0 {
                        continue;
                    }
                    for pos in [0, n / 2, n - 1] {
                        let mut v = fill_from(&pts, n, rng);
                        v[pos] = *rng.pick(&bads);
                        let q = arr_q(&shape, v, Lay::C);
                        b.q(tr, Entry::Array, tag, &q, Lay::C);
                        b.q(tr, Entry::ArrayInto, tag, &q, Lay::C);
                    }
                }
                for &bad in &bads {
                    b.q(tr, Entry::Interp, "-", &scalar_q(bad), Lay::C);
                    b.q(tr, Entry::Into, "-", &scalar_q(bad), Lay::C);
                }
            };
        }
    }
    // the same for 2-D: an out-of-range x, y or both at the first / middle / last position of a batch
    tr.reset("entries-oob-2d");
    {
        let x: Vec<f64> = vec![-1.0, 0.5, 2.0, 4.5];
        let y: Vec<f64> = vec![10.0, 11.0, 13.5];
        for (dtag, trailing) in [("Ix2", vec![]), ("Ix3", vec![2usize])] {
            let mut shape = vec![4usize, 3];
            shape.extend_from_slice(&trailing);
            let data = gen::data::<f64>(rng, &shape, "uniform");
            let dr = real(&data, Lay::C);
            let xr = real1(&x, Lay::C);
            let yr = real1(&y, Lay::C);
            let cfg = Cfg2 { x: Some(&xr), y: Some(&yr), data: &dr, dtag, store: Store::Owned };
            if let Some(b) = do_build2(tr, &cfg, &Strat2::Bilinear { ex: false }, &[]) {
                let px = [-1.0f64, 4.5, 0.75, 2.0, 3.0];
                let py = [10.0f64, 13.5, 10.5, 11.0, 12.0];
                let badx = [4.5f64.next_up(), (-1.0f64).next_down(), f64::NAN, f64::INFINITY, -1e9];
                let bady = [13.5f64.next_up(), 10.0f64.next_down(), f64::NAN, f64::NEG_INFINITY, 1e300];
                for (tag, qshape) in query_shapes(false) {
                    let n: usize = qshape.iter().product();
                    if n == 0 {
                        continue;
                    }
                    for pos in [0, n / 2, n - 1] {
                        for which in 0..3 {
                            let mut vx: Vec<f64> = (0..n).map(|i| px[(i * 3 + pos) % 5]).collect();
                            let mut vy: Vec<f64> = (0..n).map(|i| py[(i * 2 + pos) % 5]).collect();
                            if which != 1 {
                                vx[pos] = *rng.pick(&badx);
                            }
                            if which != 0 {
                                vy[pos] = *rng.pick(&bady);
                            }
                            let qx = arr_q(&qshape, vx, Lay::C);
                            let qy = arr_q(&qshape, vy, Lay::C);
                            b.q(tr, Entry::Array, tag, &qx, &qy, Lay::C);
                            if which == 2 {
                                b.q(tr, Entry::ArrayInto, tag, &qx, &qy, Lay::C);
                            }
                        }
                    }
                }
                for k in 0..5 {
                    b.q(tr, Entry::Interp, "-", &scalar_q(badx[k]), &scalar_q(py[k]), Lay::C);
                    b.q(tr, Entry::Into, "-", &scalar_q(px[k]), &scalar_q(bady[k]), Lay::C);
                }
            };
        }
    }
}

// ------------------------------------------------------------------------------------------------
/// the same logical contents with every layout / ownership of data, axes, queries, buffers (C13)
pub fn layouts(tr: &mut Trace, rng: &mut Rng, thorough: bool) {
    let trailings: Vec<Vec<usize>> = if thorough { vec![vec![], vec![3], vec![2, 3], vec![2, 1, 3]] } else { vec![vec![], vec![3], vec![2, 3]] };
    for trailing in trailings {
        // with extrapolation (the range test is skipped), without it (every query passes the range test, which reads
        // the axis), and periodic with extrapolation (out-of-range queries are wrapped using both axis ends)
        for strat_i in 0..5 {
            tr.reset("layouts-1d");
            let n = 5;
            let x: Vec<f64> = gen::axis::<f64>(rng, n, "random");
            let mut shape = vec![n];
            shape.extend_from_slice(&trailing);
            let mut data = gen::data::<f64>(rng, &shape, "uniform");
            let strat = match strat_i {
                0 => Strat1::Linear { ex: true },
                1 => Strat1::Spline { ex: true, bc: Bc::Global("Natural") },
                2 => Strat1::Linear { ex: false },
                3 => Strat1::Spline { ex: false, bc: Bc::Global("NotAKnot") },
                _ => {
                    let first = data.index_axis(ndarray::Axis(0), 0).to_owned();
                    data.index_axis_mut(ndarray::Axis(0), n - 1).assign(&first);
                    Strat1::Spline { ex: true, bc: Bc::Global("Periodic") }
                }
            };
            let inside = strat_i == 2 || strat_i == 3;
            let span = x[n - 1] - x[0];
            let pts = if inside {
                vec![x[0], x[n - 1], (x[1] + x[2]) / 2.0, x[3], (x[3] + x[4]) / 2.0]
            } else if strat_i == 4 {
                vec![x[0], x[n - 1] + 0.375 * span, (x[1] + x[2]) / 2.0, x[3] - 2.0 * span, x[n - 1] + 0.75]
            } else {
                vec![x[0], x[n - 1], (x[1] + x[2]) / 2.0, x[3], x[n - 1] + 0.75]
            };
            // (store, data layout, x layout)
            let mut variants: Vec<(Store, Lay, Lay)> = vec![
                (Store::Owned, Lay::C, Lay::C),
                (Store::Owned, Lay::F, Lay::C),
                (Store::Owned, Lay::Perm, Lay::C),
                (Store::Shared, Lay::C, Lay::C),
                (Store::Shared, Lay::F, Lay::C),
            ];
            for l in ALL_LAYS {
                variants.push((Store::View, l, Lay::C));
            }
            for l in [Lay::Strided, Lay::Rev, Lay::Window] {
                variants.push((Store::View, Lay::C, l));
            }
            // owned arrays keep the negative strides of a reversed view (to_owned() of a contiguous view)
            variants.push((Store::Owned, Lay::C, Lay::Rev));
            variants.push((Store::Owned, Lay::Rev, Lay::C));
            variants.push((Store::Shared, Lay::PermTrail, Lay::Rev));
            let qcases: [(&'static str, Vec<usize>); 5] = [("Ix1", vec![4usize]), ("Ix2", vec![2, 2]), ("IxDyn", vec![2, 2]), ("Ix3", vec![2, 1, 2]), ("Ix0", vec![])];
            for (vi, (store, dlay, xlay)) in variants.into_iter().enumerate() {
                let dr = real(&data, dlay);
                let xr = real1(&x, xlay);
                let cfg = Cfg1 { x: Some(&xr), data: &dr, dtag: dtag_for(shape.len(), false), store };
                let b = match do_build1(tr, &cfg, &strat, &[]) {
                    Some(b) => b,
                    None => continue,
                };
                let battery = |tr: &mut Trace, ql: Lay, bl: Lay| {
                    for (tag, qshape) in qcases.iter() {
                        let nq: usize = qshape.iter().product();
                        let v: Vec<f64> = (0..nq).map(|i| pts[i % pts.len()]).collect();
                        let q = arr_q(qshape, v, ql);
                        b.q(tr, Entry::Array, tag, &q, Lay::C);
                        b.q(tr, Entry::ArrayInto, tag, &q, bl);
                    }
                    b.q(tr, Entry::Into, "-", &scalar_q(pts[2]), bl);
                };
                // every data / axis variant with plain queries and buffers
                battery(tr, Lay::C, Lay::C);
                b.q(tr, Entry::Interp, "-", &scalar_q(pts[2]), Lay::C);
                if vi == 0 || (thorough && vi == 6) {
                    // query layouts and buffer layouts varied independently
                    for l in ALL_LAYS {
                        if l != Lay::C {
                            battery(tr, l, Lay::C);
                            battery(tr, Lay::C, l);
                        }
                    }
                }
                // one mixed combination
                let (ql, bl) = (*rng.pick(&ALL_LAYS), *rng.pick(&ALL_LAYS));
                battery(tr, ql, bl);
            }
        }
    }
    // ---- 2-D
    for trailing in [vec![], vec![2usize], vec![2, 3]] {
        tr.reset("layouts-2d");
        let (nx, ny) = (4usize, 3usize);
        let x: Vec<f64> = gen::axis::<f64>(rng, nx, "random");
        let y: Vec<f64> = gen::axis::<f64>(rng, ny, "geometric");
        let mut shape = vec![nx, ny];
        shape.extend_from_slice(&trailing);
        let data = gen::data::<f64>(rng, &shape, "uniform");
        // one of the three data sets is queried without extrapolation (every query passes both range tests)
        let ex = trailing.len() != 1;
        let px = if ex { vec![x[0], x[nx - 1], (x[1] + x[2]) / 2.0, x[1], x[nx - 1] + 0.5] } else { vec![x[0], x[nx - 1], (x[1] + x[2]) / 2.0, x[1], (x[2] + x[3]) / 2.0] };
        let py = if ex { vec![y[ny - 1], y[0], (y[0] + y[1]) / 2.0, y[1], y[0] - 0.25] } else { vec![y[ny - 1], y[0], (y[0] + y[1]) / 2.0, y[1], (y[1] + y[2]) / 2.0] };
        let mut variants: Vec<(Store, Lay, Lay, Lay)> = vec![
            (Store::Owned, Lay::C, Lay::C, Lay::C),
            (Store::Owned, Lay::F, Lay::C, Lay::C),
            (Store::Owned, Lay::Perm, Lay::C, Lay::C),
            (Store::Shared, Lay::F, Lay::C, Lay::C),
        ];
        for l in ALL_LAYS {
            variants.push((Store::View, l, Lay::C, Lay::C));
        }
        variants.push((Store::View, Lay::C, Lay::Strided, Lay::Rev));
        variants.push((Store::View, Lay::C, Lay::Window, Lay::Strided));
        variants.push((Store::View, Lay::C, Lay::Rev, Lay::C));
        variants.push((Store::Owned, Lay::C, Lay::Rev, Lay::Rev));
        variants.push((Store::Owned, Lay::RevTrail, Lay::C, Lay::Rev));
        let qcases: [(&'static str, Vec<usize>); 4] = [("Ix1", vec![4usize]), ("Ix2", vec![2, 2]), ("IxDyn", vec![2, 2]), ("Ix0", vec![])];
        for (vi, (store, dlay, xlay, ylay)) in variants.into_iter().enumerate() {
            let dr = real(&data, dlay);
            let xr = real1(&x, xlay);
            let yr = real1(&y, ylay);
            let cfg = Cfg2 { x: Some(&xr), y: Some(&yr), data: &dr, dtag: dtag_for(shape.len(), false), store };
            let b = match do_build2(tr, &cfg, &Strat2::Bilinear { ex }, &[]) {
                Some(b) => b,
                None => continue,
            };
            let battery = |tr: &mut Trace, qlx: Lay, qly: Lay, bl: Lay| {
                for (tag, qshape) in qcases.iter() {
                    let nq: usize = qshape.iter().product();
                    let qx = arr_q(qshape, (0..nq).map(|i| px[i % px.len()]).collect(), qlx);
                    let qy = arr_q(qshape, (0..nq).map(|i| py[i % py.len()]).collect(), qly);
                    b.q(tr, Entry::Array, tag, &qx, &qy, Lay::C);
                    b.q(tr, Entry::ArrayInto, tag, &qx, &qy, bl);
                }
                b.q(tr, Entry::Into, "-", &scalar_q(px[2]), &scalar_q(py[2]), bl);
            };
            battery(tr, Lay::C, Lay::C, Lay::C);
            if vi == 0 {
                for l in ALL_LAYS {
                    if l != Lay::C {
                        battery(tr, l, Lay::C, Lay::C);
                        battery(tr, Lay::C, l, Lay::C);
                        battery(tr, Lay::C, Lay::C, l);
                    }
                }
            }
            let (a, c, d) = (*rng.pick(&ALL_LAYS), *rng.pick(&ALL_LAYS), *rng.pick(&ALL_LAYS));
            battery(tr, a, c, d);
        }
    }
    let _ = thorough;
}

// ------------------------------------------------------------------------------------------------
/// wrongly shaped buffers (C14): each axis -1 / +1, permutations, wrong rank; x/y query shape mismatch
fn wrong_shapes(req: &[usize], nq: usize, dyn_out: bool) -> Vec<Vec<usize>> {
    let mut out: Vec<Vec<usize>> = vec![];
    for ax in 0..req.len() {
        let mut a = req.to_vec();
        a[ax] += 1;
        out.push(a);
        if req[ax] > 0 {
            let mut b = req.to_vec();
            b[ax] -= 1;
            out.push(b);
        }
    }
    // permutations of the trailing part, of the leading (query) part, and across both
    let swap = |i: usize, j: usize| {
        let mut a = req.to_vec();
        a.swap(i, j);
        a
    };
    for i in 0..req.len() {
        for j in (i + 1)..req.len() {
            if req[i] != req[j] {
                let _ = nq;
                out.push(swap(i, j));
            }
        }
    }
    if dyn_out {
        let mut a = req.to_vec();
        a.push(1);
        out.push(a);
        if !req.is_empty() {
            out.push(req[..req.len() - 1].to_vec());
            // merged axes: same element count, lower rank
            if req.len() >= 2 {
                let mut m = req[..req.len() - 2].to_vec();
                m.push(req[req.len() - 2] * req[req.len() - 1]);
                out.push(m);
            }
        }
        let mut c = vec![1];
        c.extend_from_slice(req);
        out.push(c);
    }
    out.sort();
    out.dedup();
    out.retain(|s| s.as_slice() != req);
    out
}

pub fn buffers(tr: &mut Trace, rng: &mut Rng, thorough: bool) {
    // ---- 1-D
    let datas: Vec<(bool, Vec<usize>)> = vec![(false, vec![]), (false, vec![3]), (false, vec![2, 3]), (true, vec![2, 3]), (false, vec![2, 3, 2])];
    for (dynamic, trailing) in datas {
        tr.reset("buffers-1d");
        let n = 4;
        let x: Vec<f64> = gen::axis::<f64>(rng, n, "uniform");
        let mut shape = vec![n];
        shape.extend_from_slice(&trailing);
        let data = gen::data::<f64>(rng, &shape, "uniform");
        let dr = real(&data, Lay::C);
        let xr = real1(&x, Lay::C);
        let cfg = Cfg1 { x: Some(&xr), data: &dr, dtag: dtag_for(shape.len(), dynamic), store: Store::Owned };
        let b = match do_build1(tr, &cfg, &Strat1::Linear { ex: false }, &[]) {
            Some(b) => b,
            None => continue,
        };
        let pts = [x[0], x[3], (x[1] + x[2]) / 2.0, x[1]];
        // correct buffers first (windows into larger poisoned allocations, several layouts)
        for lay in ALL_LAYS {
            b.q(tr, Entry::Into, "-", &scalar_q(pts[2]), lay);
        }
        for w in wrong_shapes(&trailing, 0, dynamic) {
            b.q_buf(tr, Entry::Into, "-", &scalar_q(pts[2]), Some(BufSpec { shape: w, lay: Lay::Window }));
        }
        let qshapes: Vec<(&'static str, Vec<usize>)> = vec![
            ("Ix1", vec![2]),
            ("Ix1", vec![3]),
            ("Ix2", vec![2, 3]),
            ("Ix2", vec![2, 2]),
            ("Ix3", vec![2, 1, 3]),
            ("IxDyn", vec![2]),
            ("IxDyn", vec![2, 3]),
            ("Ix1", vec![0]),
            ("Ix2", vec![0, 2]),
            ("IxDyn", vec![0]),
        ];
        for (tag, qshape) in qshapes {
            let nq: usize = qshape.iter().product();
            let q = arr_q(&qshape, (0..nq).map(|i| pts[i % 4]).collect(), Lay::C);
            let mut req = qshape.clone();
            req.extend_from_slice(&trailing);
            for lay in ALL_LAYS {
                b.q(tr, Entry::ArrayInto, tag, &q, lay);
            }
            let dyn_out = tag == "IxDyn" || dynamic || req.len() > 6;
            let ws = wrong_shapes(&req, qshape.len(), dyn_out);
            for (k, w) in ws.iter().enumerate() {
                if !thorough && k % 2 == 1 && ws.len() > 8 {
                    continue;
                }
                b.q_buf(tr, Entry::ArrayInto, tag, &q, Some(BufSpec { shape: w.clone(), lay: Lay::Window }));
            }
        }
    }
    // ---- 2-D
    for (dynamic, trailing) in [(false, vec![]), (false, vec![3usize]), (true, vec![2, 3]), (false, vec![2, 3])] {
        tr.reset("buffers-2d");
        let (nx, ny) = (3usize, 4usize);
        let x: Vec<f64> = gen::axis::<f64>(rng, nx, "uniform");
        let y: Vec<f64> = gen::axis::<f64>(rng, ny, "random");
        let mut shape = vec![nx, ny];
        shape.extend_from_slice(&trailing);
        let data = gen::data::<f64>(rng, &shape, "uniform");
        let dr = real(&data, Lay::C);
        let xr = real1(&x, Lay::C);
        let yr = real1(&y, Lay::C);
        let cfg = Cfg2 { x: Some(&xr), y: Some(&yr), data: &dr, dtag: dtag_for(shape.len(), dynamic), store: Store::Owned };
        let b = match do_build2(tr, &cfg, &Strat2::Bilinear { ex: false }, &[]) {
            Some(b) => b,
            None => continue,
        };
        let px = [x[0], x[2], (x[0] + x[1]) / 2.0, x[1]];
        let py = [y[3], y[0], (y[1] + y[2]) / 2.0, y[1]];
        b.q(tr, Entry::Into, "-", &scalar_q(px[2]), &scalar_q(py[2]), Lay::Window);
        for w in wrong_shapes(&trailing, 0, dynamic) {
            b.q_buf(tr, Entry::Into, "-", &scalar_q(px[2]), &scalar_q(py[2]), Some(BufSpec { shape: w, lay: Lay::Window }));
        }
        for (tag, qshape) in [("Ix1", vec![2usize]), ("Ix2", vec![2, 3]), ("IxDyn", vec![2, 3]), ("Ix3", vec![2, 1, 3])] {
            let nq: usize = qshape.iter().product();
            let qx = arr_q(&qshape, (0..nq).map(|i| px[i % 4]).collect(), Lay::C);
            let qy = arr_q(&qshape, (0..nq).map(|i| py[i % 4]).collect(), Lay::C);
            let mut req = qshape.clone();
            req.extend_from_slice(&trailing);
            for lay in ALL_LAYS {
                b.q(tr, Entry::ArrayInto, tag, &qx, &qy, lay);
            }
            let dyn_out = tag == "IxDyn" || dynamic || req.len() > 6;
            for w in wrong_shapes(&req, qshape.len(), dyn_out) {
                b.q_buf(tr, Entry::ArrayInto, tag, &qx, &qy, Some(BufSpec { shape: w, lay: Lay::Window }));
            }
            // x / y query arrays of different shapes
            let mut other = qshape.clone();
            other[0] += 1;
            let no: usize = other.iter().product();
            let qy2 = arr_q(&other, (0..no).map(|i| py[i % 4]).collect(), Lay::C);
            b.q(tr, Entry::Array, tag, &qx, &qy2, Lay::C);
            b.q_buf(tr, Entry::ArrayInto, tag, &qx, &qy2, Some(BufSpec { shape: req.clone(), lay: Lay::Window }));
            if qshape.len() >= 2 && qshape[0] != qshape[1] {
                // a permutation with the same element count
                let mut perm = qshape.clone();
                perm.swap(0, 1);
                let qy3 = arr_q(&perm, (0..nq).map(|i| py[i % 4]).collect(), Lay::C);
                b.q(tr, Entry::Array, tag, &qx, &qy3, Lay::C);
            }
        }
    }
}

// ------------------------------------------------------------------------------------------------
/// recording / failing custom strategies (C18) and the accessors
pub fn custom(tr: &mut Trace, rng: &mut Rng, thorough: bool) {
    // builder side: minimum 0..4 x data length 0..min+2 x rank tag
    for min in 0..=4usize {
        tr.reset("custom-build");
        for len in 0..=(min + 2) {
            for (dynamic, trailing) in [(false, vec![]), (false, vec![2usize]), (true, vec![2])] {
                let mut shape = vec![len];
                shape.extend_from_slice(&trailing);
                let data = gen::data::<f64>(rng, &shape, "small");
                let x: Vec<f64> = (0..len).map(|i| 0.5 + 1.25 * i as f64).collect();
                let dr = real(&data, Lay::C);
                let xr = real1(&x, Lay::C);
                for fb in [false, true] {
                    let cfg = Cfg1 { x: Some(&xr), data: &dr, dtag: dtag_for(shape.len(), dynamic), store: Store::Owned };
                    let _ = do_build1(tr, &cfg, &Strat1::Custom(new_custom(min, fb, None)), &[]);
                }
                // an axis that fails validation: the strategy must not be invoked
                if len >= 2 {
                    let mut xb = x.clone();
                    xb.swap(0, 1);
                    let xbr = real1(&xb, Lay::C);
                    let cfg = Cfg1 { x: Some(&xbr), data: &dr, dtag: dtag_for(shape.len(), dynamic), store: Store::Owned };
                    let _ = do_build1(tr, &cfg, &Strat1::Custom(new_custom(min, false, None)), &[]);
                    let xs = x[..len - 1].to_vec();
                    let xsr = real1(&xs, Lay::C);
                    let cfg = Cfg1 { x: Some(&xsr), data: &dr, dtag: dtag_for(shape.len(), dynamic), store: Store::Owned };
                    let _ = do_build1(tr, &cfg, &Strat1::Custom(new_custom(min, false, None)), &[]);
                }
            }
        }
    }
    // 2-D builder side
    for min in 0..=4usize {
        tr.reset("custom-build-2d");
        for (lx, ly) in [(min, min), (min + 1, min), (min, min + 2), (min.saturating_sub(1), min + 1), (2, 2), (3, 5)] {
            let shape = vec![lx, ly, 2];
            let data = gen::data::<f64>(rng, &shape, "small");
            let x: Vec<f64> = (0..lx).map(|i| i as f64 * 0.5).collect();
            let y: Vec<f64> = (0..ly).map(|i| 1.0 + i as f64 * 2.0).collect();
            let dr = real(&data, Lay::C);
            let xr = real1(&x, Lay::C);
            let yr = real1(&y, Lay::C);
            for fb in [false, true] {
                let cfg = Cfg2 { x: Some(&xr), y: Some(&yr), data: &dr, dtag: "Ix3", store: Store::Owned };
                let _ = do_build2(tr, &cfg, &Strat2::Custom(new_custom(min, fb, None)), &[]);
            }
            if ly >= 2 {
                let mut yb = y.clone();
                yb[1] = yb[0];
                let ybr = real1(&yb, Lay::C);
                let cfg = Cfg2 { x: Some(&xr), y: Some(&ybr), data: &dr, dtag: "Ix3", store: Store::Owned };
                let _ = do_build2(tr, &cfg, &Strat2::Custom(new_custom(min, false, None)), &[]);
            }
        }
    }
    // query side: every entry point, failure injected at every call index of a batch
    // (incl. data with a zero-length trailing axis: no lanes, but every query must still reach the strategy)
    for (dynamic, trailing) in [(false, vec![]), (false, vec![2usize, 3]), (true, vec![3]), (false, vec![0usize]), (false, vec![2usize, 0])] {
        tr.reset("custom-query");
        let n = 4;
        let x: Vec<f64> = gen::axis::<f64>(rng, n, "random");
        let mut shape = vec![n];
        shape.extend_from_slice(&trailing);
        let data = gen::data::<f64>(rng, &shape, "uniform");
        let dr = real(&data, Lay::C);
        let xr = real1(&x, Lay::C);
        let cfg = Cfg1 { x: Some(&xr), data: &dr, dtag: dtag_for(shape.len(), dynamic), store: Store::Owned };
        // queries that a strategy must receive unmodified: far outside, -0.0, subnormal, infinities, NaN
        let pts = vec![x[0], x[1] + 0.125, x[n - 1] + 100.0, -0.0, 5e-324, f64::INFINITY, f64::NAN, x[0] - 7.0];
        if let Some(b) = do_build1(tr, &cfg, &Strat1::Custom(new_custom(2, false, None)), &[]) {
            all_entries_1d(tr, rng, &b, &pts, shape.len() == 1 && !dynamic, thorough, &[Lay::C, Lay::F, Lay::Window, Lay::Perm, Lay::Rev]);
            for i in 0..n {
                acc1(tr, &b, i);
            }
            for &p in &pts {
                rng1(tr, &b, p);
            }
        }
        for k in 0..5usize {
            if let Some(b) = do_build1(tr, &cfg, &Strat1::Custom(new_custom(2, false, Some(k))), &[]) {
                let q = arr_q(&[4], pts[..4].to_vec(), Lay::C);
                b.q(tr, Entry::Array, "Ix1", &q, Lay::C);
                b.q(tr, Entry::ArrayInto, "Ix1", &q, Lay::C);
                let q2 = arr_q(&[2, 2], pts[..4].to_vec(), Lay::C);
                b.q(tr, Entry::Array, "Ix2", &q2, Lay::C);
                b.q(tr, Entry::ArrayInto, "IxDyn", &q2, Lay::C);
                b.q(tr, Entry::Interp, "-", &scalar_q(pts[1]), Lay::C);
                b.q(tr, Entry::Into, "-", &scalar_q(pts[1]), Lay::C);
            }
        }
    }
    for (dynamic, trailing) in [(false, vec![]), (false, vec![2usize]), (true, vec![2, 2]), (false, vec![0usize])] {
        tr.reset("custom-query-2d");
        let (nx, ny) = (3usize, 4usize);
        let x: Vec<f64> = gen::axis::<f64>(rng, nx, "random");
        let y: Vec<f64> = gen::axis::<f64>(rng, ny, "uniform");
        let mut shape = vec![nx, ny];
        shape.extend_from_slice(&trailing);
        let data = gen::data::<f64>(rng, &shape, "uniform");
        let dr = real(&data, Lay::C);
        let xr = real1(&x, Lay::C);
        let yr = real1(&y, Lay::C);
        let cfg = Cfg2 { x: Some(&xr), y: Some(&yr), data: &dr, dtag: dtag_for(shape.len(), dynamic), store: Store::Owned };
        let px = vec![x[0], x[1] + 0.125, x[nx - 1] + 100.0, -0.0, f64::NAN];
        let py = vec![y[ny - 1], y[0] - 3.0, 0.0, y[1], y[1]];
        if let Some(b) = do_build2(tr, &cfg, &Strat2::Custom(new_custom(2, false, None)), &[]) {
            all_entries_2d(tr, rng, &b, &px, &py, shape.len() == 2 && !dynamic, thorough, &[Lay::F, Lay::C, Lay::Window, Lay::Perm, Lay::Rev]);
            for i in 0..nx {
                for j in 0..ny {
                    acc2(tr, &b, i, j);
                }
            }
            for k in 0..px.len() {
                rng2(tr, &b, px[k], py[k]);
            }
        }
        for k in 0..4usize {
            if let Some(b) = do_build2(tr, &cfg, &Strat2::Custom(new_custom(2, false, Some(k))), &[]) {
                let qx = arr_q(&[3], px[..3].to_vec(), Lay::C);
                let qy = arr_q(&[3], py[..3].to_vec(), Lay::C);
                b.q(tr, Entry::Array, "Ix1", &qx, &qy, Lay::C);
                b.q(tr, Entry::ArrayInto, "IxDyn", &qx, &qy, Lay::C);
                b.q(tr, Entry::Interp, "-", &scalar_q(px[1]), &scalar_q(py[1]), Lay::C);
            }
        }
    }
}

/// `index_point(i)` on a built 1-D interpolator
pub fn acc1<T: El>(tr: &mut Trace, b: &B1<'_, T>, i: usize) {
    let (out, x, row) = match b.it.index_point(i) {
        Some((x, row)) => ("Ok", x.pay(), row.iter().map(|v| v.pay()).collect::<Vec<_>>()),
        None => ("Panic", String::new(), vec![]),
    };
    tr.raw(jobj(&[
        ("ev", jstr("Acc")),
        ("what", jstr("point")),
        ("id", b.id.to_string()),
        ("i", i.to_string()),
        ("out", jstr(out)),
        ("x", jstr(&x)),
        ("row", jarr_s(&row)),
    ]));
}

pub fn acc2<T: El>(tr: &mut Trace, b: &B2<'_, T>, i: usize, j: usize) {
    let (out, x, y, row) = match b.it.index_point(i, j) {
        Some((x, y, row)) => ("Ok", x.pay(), y.pay(), row.iter().map(|v| v.pay()).collect::<Vec<_>>()),
        None => ("Panic", String::new(), String::new(), vec![]),
    };
    tr.raw(jobj(&[
        ("ev", jstr("Acc")),
        ("what", jstr("point")),
        ("id", b.id.to_string()),
        ("i", i.to_string()),
        ("j", j.to_string()),
        ("out", jstr(out)),
        ("x", jstr(&x)),
        ("y", jstr(&y)),
        ("row", jarr_s(&row)),
    ]));
}

/// `is_in_range(q)` and `get_index_left_of(q)` on a built 1-D interpolator
pub fn rng1<T: El>(tr: &mut Trace, b: &B1<'_, T>, q: T) {
    let inr = b.it.is_in_range(q);
    #[allow(clippy::eq_op)]
    let nan = q != q;
    let left: isize = if nan { -1 } else { b.it.index_left_of(q).0.map(|v| v as isize).unwrap_or(-2) };
    tr.raw(jobj(&[
        ("ev", jstr("Acc")),
        ("what", jstr("range")),
        ("id", b.id.to_string()),
        ("q", jstr(&q.pay())),
        ("inr", (inr as u8).to_string()),
        ("left", left.to_string()),
    ]));
}

pub fn rng2<T: El>(tr: &mut Trace, b: &B2<'_, T>, qx: T, qy: T) {
    let (inx, iny) = b.it.is_in_range(qx, qy);
    #[allow(clippy::eq_op)]
    let nan = qx != qx || qy != qy;
    let (lx, ly): (isize, isize) = if nan {
        (-1, -1)
    } else {
        b.it.index_left_of(qx, qy).0.map(|(a, c)| (a as isize, c as isize)).unwrap_or((-2, -2))
    };
    tr.raw(jobj(&[
        ("ev", jstr("Acc")),
        ("what", jstr("range")),
        ("id", b.id.to_string()),
        ("q", jstr(&qx.pay())),
        ("q2", jstr(&qy.pay())),
        ("inr", (inx as u8).to_string()),
        ("inr2", (iny as u8).to_string()),
        ("left", lx.to_string()),
        ("left2", ly.to_string()),
    ]));
}

// ------------------------------------------------------------------------------------------------
/// the complete type table of the rank-1 fast path (C19): data dimension type x query dimension type
/// x storage x element type x {Interp1D, Interp2D}
fn casts_for<T: El>(tr: &mut Trace, rng: &mut Rng, thorough: bool) {
    let stores = [Store::Owned, Store::View, Store::Shared];
    let qtags: [(&'static str, Vec<usize>); 6] =
        [("Ix0", vec![]), ("Ix1", vec![3]), ("IxDyn", vec![3]), ("Ix2", vec![3, 1]), ("Ix3", vec![1, 3, 1]), ("IxDyn", vec![1, 3])];
    // 1-D: data Ix1..Ix6, IxDyn; an 8th round: 2-d data with a zero-length trailing axis (no lanes: the fast path
    // and the general path must still agree on whether the batch is answered)
    for drank in 1..=8usize {
        let dynamic = drank == 7;
        let rank = if dynamic { 3 } else if drank == 8 { 2 } else { drank };
        tr.reset("casts-1d");
        let n = 4usize;
        let mut shape = vec![n];
        for k in 1..rank {
            shape.push(if drank == 8 { 0 } else if k == 1 { 2 } else { 1 });
        }
        let x: Vec<T> = (0..n).map(|i| T::of_f64(2.0 * i as f64 + 1.0)).collect();
        let data = ArrayD::from_shape_vec(IxDyn(&shape), (0..shape.iter().product::<usize>()).map(|_| T::of_f64(rng.range(-40, 40) as f64)).collect()).unwrap();
        for store in stores {
            if !thorough && store != Store::Owned && drank % 2 == 0 {
                continue;
            }
            let dr = real(&data, Lay::C);
            let xr = real1(&x, Lay::C);
            let cfg = Cfg1 { x: Some(&xr), data: &dr, dtag: dtag_for(rank, dynamic), store };
            let b = match do_build1_lin(tr, &cfg, &Strat1::Linear { ex: false }, &[]) {
                Some(b) => b,
                None => continue,
            };
            let pts = [x[0], T::of_f64(4.0), x[3]];
            for (tag, qshape) in qtags.iter() {
                let nq: usize = qshape.iter().product();
                let q = arr_q(qshape, (0..nq).map(|i| pts[i % 3]).collect(), Lay::C);
                b.q(tr, Entry::Array, tag, &q, Lay::C);
                b.q(tr, Entry::ArrayInto, tag, &q, Lay::C);
                // the same questions from reversed / strided / windowed query views and into such buffers: the fast path
                // (static rank-1 query) and the general path must keep pairing query i with output row i
                if nq == 3 {
                    for (ql, bl) in [(Lay::Rev, Lay::C), (Lay::Strided, Lay::Rev), (Lay::C, Lay::Strided), (Lay::Window, Lay::C)] {
                        let q = arr_q(qshape, (0..nq).map(|i| pts[i % 3]).collect(), ql);
                        b.q(tr, Entry::Array, tag, &q, Lay::C);
                        b.q(tr, Entry::ArrayInto, tag, &q, bl);
                    }
                }
                // failing batches: the fast path must fail exactly like the general path
                // (one bad element in the middle; two different bad elements)
                if nq == 3 {
                    let lo = T::of_f64(-3.0);
                    let hi = T::of_f64(90.0);
                    for bad in [[pts[0], lo, pts[2]], [lo, pts[1], hi], [pts[0], hi, lo]] {
                        let q = arr_q(qshape, bad.to_vec(), Lay::C);
                        b.q(tr, Entry::Array, tag, &q, Lay::C);
                        b.q(tr, Entry::ArrayInto, tag, &q, Lay::C);
                    }
                }
            }
        }
    }
    // 2-D: data Ix2..Ix6, IxDyn; an 8th round with a zero-length trailing axis
    for drank in 2..=8usize {
        let dynamic = drank == 7;
        let rank = if dynamic { 3 } else if drank == 8 { 3 } else { drank };
        tr.reset("casts-2d");
        let (nx, ny) = (3usize, 2usize);
        let mut shape = vec![nx, ny];
        for k in 2..rank {
            shape.push(if drank == 8 { 0 } else if k == 2 { 2 } else { 1 });
        }
        let x: Vec<T> = (0..nx).map(|i| T::of_f64(2.0 * i as f64)).collect();
        let y: Vec<T> = (0..ny).map(|i| T::of_f64(4.0 * i as f64 - 2.0)).collect();
        let data = ArrayD::from_shape_vec(IxDyn(&shape), (0..shape.iter().product::<usize>()).map(|_| T::of_f64(rng.range(-40, 40) as f64)).collect()).unwrap();
        for store in stores {
            if !thorough && store != Store::Owned && drank % 2 == 1 {
                continue;
            }
            let dr = real(&data, Lay::C);
            let xr = real1(&x, Lay::C);
            let yr = real1(&y, Lay::C);
            let cfg = Cfg2 { x: Some(&xr), y: Some(&yr), data: &dr, dtag: dtag_for(rank, dynamic), store };
            let b = match do_build2(tr, &cfg, &Strat2::Bilinear { ex: false }, &[]) {
                Some(b) => b,
                None => continue,
            };
            let px = [x[0], T::of_f64(2.0), x[2]];
            let py = [y[1], T::of_f64(0.0), y[0]];
            for (tag, qshape) in qtags.iter() {
                let nq: usize = qshape.iter().product();
                let qx = arr_q(qshape, (0..nq).map(|i| px[i % 3]).collect(), Lay::C);
                let qy = arr_q(qshape, (0..nq).map(|i| py[i % 3]).collect(), Lay::C);
                b.q(tr, Entry::Array, tag, &qx, &qy, Lay::C);
                b.q(tr, Entry::ArrayInto, tag, &qx, &qy, Lay::C);
                if nq == 3 {
                    for (qlx, qly, bl) in [(Lay::Rev, Lay::C, Lay::C), (Lay::C, Lay::Rev, Lay::Rev), (Lay::Strided, Lay::Window, Lay::Strided), (Lay::Rev, Lay::Rev, Lay::C)] {
                        let qx = arr_q(qshape, (0..nq).map(|i| px[i % 3]).collect(), qlx);
                        let qy = arr_q(qshape, (0..nq).map(|i| py[i % 3]).collect(), qly);
                        b.q(tr, Entry::Array, tag, &qx, &qy, Lay::C);
                        b.q(tr, Entry::ArrayInto, tag, &qx, &qy, bl);
                    }
                }
                if nq == 3 {
                    let lo = T::of_f64(-30.0);
                    let hi = T::of_f64(90.0);
                    for (bx, by) in [([px[0], lo, px[2]], [py[0], py[1], py[2]]), ([lo, px[1], px[2]], [py[0], py[1], hi]), ([px[0], px[1], hi], [py[0], lo, py[2]])] {
                        let qx = arr_q(qshape, bx.to_vec(), Lay::C);
                        let qy = arr_q(qshape, by.to_vec(), Lay::C);
                        b.q(tr, Entry::Array, tag, &qx, &qy, Lay::C);
                        b.q(tr, Entry::ArrayInto, tag, &qx, &qy, Lay::C);
                    }
                }
            }
        }
    }
}

/// Interp2D batch queries whose x and y arrays have different storage kinds (view / owned / shared): the three
/// casts of the rank-1 fast path name both storage types.  Run as its own driver process: if a cast relabelled
/// different types the behaviour is undefined and the process may die.
pub fn casts_mixed(tr: &mut Trace, rng: &mut Rng, _thorough: bool) {
    for (dtag, trailing) in [("Ix2", vec![]), ("Ix3", vec![2usize]), ("IxDyn", vec![3])] {
        tr.reset("casts-mixed");
        let (nx, ny) = (4usize, 3usize);
        let x: Vec<f64> = (0..nx).map(|i| 1.5 * i as f64).collect();
        let y: Vec<f64> = (0..ny).map(|i| -2.0 + 2.5 * i as f64).collect();
        let mut shape = vec![nx, ny];
        shape.extend_from_slice(&trailing);
        let data = gen::data::<f64>(rng, &shape, "uniform");
        let dr = real(&data, Lay::C);
        let xr = real1(&x, Lay::C);
        let yr = real1(&y, Lay::C);
        let cfg = Cfg2 { x: Some(&xr), y: Some(&yr), data: &dr, dtag, store: Store::Owned };
        if let Some(b) = do_build2(tr, &cfg, &Strat2::Bilinear { ex: false }, &[]) {
            let px = vec![x[0], 2.0, x[nx - 1], 0.25, 3.75, 1.5, 4.0];
            let py = vec![y[ny - 1], -1.0, y[0], 0.5, 2.75, -2.0, 3.0];
            for mix in 0..6u8 {
                tr.mix = mix;
                for tag in ["Ix1", "IxDyn"] {
                    let qx = arr_q(&[px.len()], px.clone(), Lay::C);
                    let qy = arr_q(&[py.len()], py.clone(), Lay::C);
                    b.q(tr, Entry::Array, tag, &qx, &qy, Lay::C);
                    b.q(tr, Entry::ArrayInto, tag, &qx, &qy, Lay::C);
                }
            }
            tr.mix = 0;
        };
    }
}

pub fn casts(tr: &mut Trace, rng: &mut Rng, thorough: bool) {
    casts_for::<f64>(tr, rng, thorough);
    casts_for::<f32>(tr, rng, thorough);
    casts_for::<i32>(tr, rng, thorough);
    casts_for::<i64>(tr, rng, thorough);
}

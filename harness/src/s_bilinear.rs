//! Scenarios around the Bilinear strategy (C04, C05, C06, C16, C20 share these traces).

use crate::build::*;
use crate::dynif::*;
use crate::el::*;
use crate::gen;
use crate::lay::*;
use crate::rec::*;
use crate::scen::*;
use ndarray::{ArrayD, IxDyn};

/// coordinates of interest along one axis: knots, neighbours, mid points, random
fn coords<T: El>(rng: &mut Rng, x: &[T], n_random: usize) -> Vec<T> {
    gen::queries_in_range(rng, x, n_random)
}

#[allow(clippy::too_many_arguments)]
fn one<T: El>(tr: &mut Trace, rng: &mut Rng, nx: usize, ny: usize, cx: &str, cy: &str, trailing: &[usize], xdef: bool, ydef: bool, poly: bool) {
    let x: Vec<T> = if xdef { (0..nx).map(|i| T::of_f64(i as f64)).collect() } else { gen::axis::<T>(rng, nx, cx) };
    let y: Vec<T> = if ydef { (0..ny).map(|i| T::of_f64(i as f64)).collect() } else { gen::axis::<T>(rng, ny, cy) };
    let mut shape = vec![nx, ny];
    shape.extend_from_slice(trailing);
    let lanes: usize = trailing.iter().product();
    let mut extra: Vec<(&str, String)> = vec![];
    let data = if poly {
        // a + b x + c y + d x y with tiny integer coefficients on integer-valued axes (exact)
        let mut v = vec![T::of_f64(0.0); nx * ny * lanes];
        let mut polys = vec![];
        for l in 0..lanes {
            let c: Vec<f64> = (0..4).map(|_| rng.range(-3, 3) as f64).collect();
            for (i, xv) in x.iter().enumerate() {
                for (j, yv) in y.iter().enumerate() {
                    let (a, b) = (xv.as_f64(), yv.as_f64());
                    v[(i * ny + j) * lanes + l] = T::of_f64(c[0] + c[1] * a + c[2] * b + c[3] * a * b);
                }
            }
            let cs: Vec<String> = c.iter().map(|&k| T::of_f64(k).pay()).collect();
            polys.push(jarr_s(&cs));
        }
        extra.push(("poly", jarr_raw(&polys)));
        ArrayD::from_shape_vec(IxDyn(&shape), v).unwrap()
    } else {
        gen::data::<T>(rng, &shape, gen::DATA_CLASSES[0])
    };
    let (store, dlay, xlay) = gen::next_layout();
    // the y axis takes the "other" non-standard layout
    let ylay = match xlay {
        Lay::C => Lay::C,
        Lay::Rev => Lay::Strided,
        _ => Lay::Rev,
    };
    let dr = real(&data, dlay);
    let xr = real1(&x, xlay);
    let yr = real1(&y, ylay);
    let dynamic = rng.below(6) == 0;
    let cfg = Cfg2 {
        x: if xdef { None } else { Some(&xr) },
        y: if ydef { None } else { Some(&yr) },
        data: &dr,
        dtag: dtag_for(shape.len(), dynamic),
        store,
    };
    let cxs = coords(rng, &x, 3);
    let cys = coords(rng, &y, 3);
    // in-range pairs: a random pairing that covers every x coordinate and every y coordinate
    let m = cxs.len().max(cys.len());
    let mut qx = vec![];
    let mut qy = vec![];
    for k in 0..m {
        qx.push(cxs[k % cxs.len()]);
        qy.push(cys[(k * 7 + rng.below(3)) % cys.len()]);
    }
    // node x node (all grid nodes when small)
    if nx * ny <= 30 {
        for &a in &x {
            for &b in &y {
                qx.push(a);
                qy.push(b);
            }
        }
    }
    let mut ox = gen::queries_outside(rng, &x, 50.0, 3);
    let mut oy = gen::queries_outside(rng, &y, 50.0, 3);
    ox.extend(gen::queries_far(&x, false));
    oy.extend(gen::queries_far(&y, false));
    for ex in [false, true] {
        let b = match do_build2(tr, &cfg, &Strat2::Bilinear { ex }, &extra) {
            Some(b) => b,
            None => continue,
        };
        b.q_batch(tr, &qx, &qy);
        if ex {
            // outside in x only, y only, both
            let mut ax = vec![];
            let mut ay = vec![];
            for (k, &o) in ox.iter().enumerate() {
                ax.push(o);
                ay.push(cys[k % cys.len()]);
            }
            for (k, &o) in oy.iter().enumerate() {
                ax.push(cxs[k % cxs.len()]);
                ay.push(o);
            }
            for (k, &o) in ox.iter().enumerate() {
                ax.push(o);
                ay.push(oy[k % oy.len()]);
            }
            b.q_batch(tr, &ax, &ay);
        } else {
            b.q(tr, Entry::Interp, "-", &scalar_q(ox[0]), &scalar_q(cys[0]), Lay::C);
            b.q(tr, Entry::Interp, "-", &scalar_q(cxs[0]), &scalar_q(oy[0]), Lay::C);
            b.q(tr, Entry::Interp, "-", &scalar_q(ox[1 % ox.len()]), &scalar_q(oy[1 % oy.len()]), Lay::C);
        }
        let k = rng.below(qx.len());
        if shape.len() == 2 && !dynamic {
            b.q(tr, Entry::Scalar, "-", &scalar_q(qx[k]), &scalar_q(qy[k]), Lay::C);
        }
        b.q(tr, Entry::Interp, "-", &scalar_q(qx[k]), &scalar_q(qy[k]), Lay::C);
        b.q(tr, Entry::Into, "-", &scalar_q(qx[k]), &scalar_q(qy[k]), Lay::C);
        if qx.len() >= 4 {
            let a = arr_q(&[2, 2], qx[0..4].to_vec(), Lay::C);
            let c = arr_q(&[2, 2], qy[0..4].to_vec(), Lay::C);
            b.q(tr, Entry::Array, "Ix2", &a, &c, Lay::C);
        }
    }
    // the transposed twin: data transposed, axes and query coordinates swapped (C04 symmetry)
    if trailing.is_empty() {
        let dt = data.view().reversed_axes().to_owned();
        let dtr = real(&dt, Lay::C);
        let cfg_t = Cfg2 {
            x: if ydef { None } else { Some(&yr) },
            y: if xdef { None } else { Some(&xr) },
            data: &dtr,
            dtag: dtag_for(2, false),
            store: Store::Owned,
        };
        let bt = do_build2(tr, &cfg_t, &Strat2::Bilinear { ex: false }, &[]);
        if let Some(b) = &bt {
            b.q_batch(tr, &qy, &qx);
        }
        drop(bt);
    }
}

pub fn bilinear(tr: &mut Trace, rng: &mut Rng, thorough: bool) {
    let builds = if thorough { 200 } else { 24 };
    let sizes: [(usize, usize); 8] = [(2, 2), (2, 3), (3, 2), (4, 7), (8, 11), (5, 5), (2, 9), (6, 3)];
    for i in 0..builds {
        if i % 4 == 0 {
            tr.reset("bilinear");
        }
        let (nx, ny) = sizes[i % sizes.len()];
        let cx = gen::AXIS_CLASSES[rng.below(gen::AXIS_CLASSES.len())];
        let cy = gen::AXIS_CLASSES[rng.below(gen::AXIS_CLASSES.len())];
        let trailing: &[usize] = match i % 5 {
            0 | 1 => &[],
            2 => &[2],
            3 => &[2, 2],
            _ => &[3, 1],
        };
        let poly = i % 6 == 5;
        let (xdef, ydef) = if poly { (true, true) } else { (i % 7 == 2, i % 7 == 4) };
        if i % 3 == 1 {
            one::<f32>(tr, rng, nx, ny, cx, cy, trailing, xdef, ydef, poly);
        } else {
            one::<f64>(tr, rng, nx, ny, cx, cy, trailing, xdef, ydef, poly);
        }
    }
}

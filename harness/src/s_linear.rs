//! Scenarios around the Linear strategy (C01, C05, C06, C09, C20 share these traces).

use crate::build::*;
use crate::dynif::*;
use crate::el::*;
use crate::gen;
use crate::lay::*;
use crate::rec::*;
use crate::scen::*;

/// `mag`: axis and data are multiplied by 2^mag (exact): huge / tiny magnitudes, where a product of a data difference
/// and an axis offset overflows / underflows although every input, the slope and the result are ordinary numbers
#[allow(clippy::too_many_arguments)]
fn one<T: FEl>(tr: &mut Trace, rng: &mut Rng, n: usize, class: &str, trailing: &[usize], dclass: &str, xdef: bool, few: bool, mag: i32) {
    let mut x: Vec<T> = if xdef { (0..n).map(|i| T::of_f64(i as f64)).collect() } else { gen::axis::<T>(rng, n, class) };
    let mut shape = vec![n];
    shape.extend_from_slice(trailing);
    let mut data = gen::data::<T>(rng, &shape, dclass);
    if mag != 0 && !xdef {
        let f = (2.0f64).powi(mag);
        let xs: Vec<T> = x.iter().map(|v| T::of_f64(v.as_f64() * f)).collect();
        let ok = xs.windows(2).all(|w| w[0] < w[1]) && xs.iter().all(|v| v.as_f64().is_finite() && (v.as_f64() == 0.0 || v.as_f64().abs() > 1e-300));
        if ok {
            x = xs;
            data.mapv_inplace(|v| T::of_f64(v.as_f64() * f));
        }
    }
    let (store, dlay, xlay) = gen::next_layout();
    let dr = real(&data, dlay);
    let xr = real1(&x, xlay);
    let dynamic = rng.below(6) == 0;
    let cfg = Cfg1 { x: if xdef { None } else { Some(&xr) }, data: &dr, dtag: dtag_for(shape.len(), dynamic), store };
    let qin = gen::queries_in_range(rng, &x, if few { 3 } else { 10 });
    let mut qout = gen::queries_outside(rng, &x, 50.0, if few { 3 } else { 8 });
    if mag == 0 {
        qout.extend(gen::queries_far(&x, false));
    }
    for ex in [false, true] {
        let b = match do_build1(tr, &cfg, &Strat1::Linear { ex }, &[]) {
            Some(b) => b,
            None => continue,
        };
        b.q_batch(tr, &qin);
        if ex {
            b.q_batch(tr, &qout);
        } else {
            // each out-of-range query on its own (a batch fails as a whole)
            for &q in qout.iter().take(4) {
                b.q(tr, Entry::Interp, "-", &scalar_q(q), Lay::C);
            }
        }
        // a few single-point entries
        let q0 = *rng.pick(&qin);
        if shape.len() == 1 && !dynamic {
            b.q(tr, Entry::Scalar, "-", &scalar_q(q0), Lay::C);
        }
        b.q(tr, Entry::Interp, "-", &scalar_q(q0), Lay::C);
        b.q(tr, Entry::Into, "-", &scalar_q(q0), *rng.pick(&[Lay::C, Lay::F, Lay::Rev, Lay::Window]));
        // a 2-d query through the general path
        if qin.len() >= 4 {
            let qs: Vec<T> = (0..4).map(|_| *rng.pick(&qin)).collect();
            let q2 = arr_q(&[2, 2], qs, Lay::C);
            b.q(tr, Entry::Array, "Ix2", &q2, Lay::C);
        }
    }
}

pub fn linear(tr: &mut Trace, rng: &mut Rng, thorough: bool) {
    let builds = if thorough { 400 } else { 36 };
    for i in 0..builds {
        if i % 6 == 0 {
            tr.reset("linear");
        }
        let class = gen::AXIS_CLASSES[i % gen::AXIS_CLASSES.len()];
        let n = match i % 5 {
            0 => 2,
            1 => 3,
            _ => 2 + rng.below(if thorough { 39 } else { 14 }),
        };
        // the coincidence axes need at least 4 points to be uneven at all
        let n = if class == "indexlike" || class == "meanfirst" { n.max(4) } else { n };
        let trailing = gen::TRAILING[rng.below(gen::TRAILING.len())];
        let dclass = gen::DATA_CLASSES[rng.below(gen::DATA_CLASSES.len())];
        let xdef = i % 7 == 3 && class != "indexlike" && class != "meanfirst";
        // every 9th build in huge / tiny units (alternating), the others in ordinary ones
        let mag64 = if i % 9 == 4 { if (i / 9) % 2 == 0 { 660 } else { -660 } } else { 0 };
        let mag32 = if i % 9 == 5 || i % 9 == 8 { if (i / 9) % 2 == 0 { 56 } else { -56 } } else { 0 };
        if i % 3 == 2 {
            one::<f32>(tr, rng, n, class, trailing, dclass, xdef, !thorough, mag32);
        } else {
            one::<f64>(tr, rng, n, class, trailing, dclass, xdef, !thorough, mag64);
        }
    }
}

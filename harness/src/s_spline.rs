//! Scenarios around the CubicSpline strategy (C02, C03, C06, C07, C16, C08 share these traces).

use crate::build::*;
use crate::dynif::*;
use crate::el::*;
use crate::gen;
use crate::lay::*;
use crate::rec::*;
use crate::scen::*;
use ndarray::{ArrayD, IxDyn};

pub const SINGLES: [&str; 5] = ["NotAKnot", "Natural", "Clamped", "FirstDeriv", "SecondDeriv"];

fn side<T: El>(rng: &mut Rng, kind: &'static str) -> Side<T> {
    let val = match kind {
        "FirstDeriv" | "SecondDeriv" => Some(T::of_f64(*rng.pick(&[0.0, 1.0, -2.0, 0.5, 3.25, -0.75]))),
        _ => None,
    };
    Side { kind, val }
}

/// 5 samples per interval, every knot and (floats) its neighbours
fn dense_queries<T: El>(x: &[T], per_interval: usize) -> Vec<T> {
    let lo = x[0];
    let hi = x[x.len() - 1];
    let mut q = vec![];
    for w in x.windows(2) {
        let (a, b) = (w[0].as_f64(), w[1].as_f64());
        for s in 0..per_interval {
            let v = T::of_f64(a + (b - a) * (s as f64) / (per_interval as f64));
            if v >= lo && v <= hi {
                q.push(v);
            }
        }
    }
    q.push(hi);
    for &k in x {
        let u = k.next_up();
        if u <= hi {
            q.push(u);
        }
        let d = k.next_down();
        if d >= lo {
            q.push(d);
        }
    }
    q
}

struct Plan<T: El> {
    x: Vec<T>,
    data: ArrayD<T>,
    bc: Bc<T>,
    poly: Option<String>,
}

fn run_plan<T: FEl>(tr: &mut Trace, rng: &mut Rng, p: &Plan<T>, dense: usize, extrap: bool) {
    run_plan_lay(tr, rng, p, dense, extrap, gen::next_layout())
}

fn run_plan_lay<T: FEl>(tr: &mut Trace, rng: &mut Rng, p: &Plan<T>, dense: usize, extrap: bool, lay: (Store, Lay, Lay)) {
    let (store, dlay, xlay) = lay;
    let dr = real(&p.data, dlay);
    let xr = real1(&p.x, xlay);
    let dynamic = rng.below(8) == 0;
    let cfg = Cfg1 { x: Some(&xr), data: &dr, dtag: dtag_for(p.data.ndim(), dynamic), store };
    let qin = dense_queries(&p.x, dense);
    let mut qout = gen::queries_outside(rng, &p.x, 50.0, 6);
    // far queries only as far as the cubic's own terms stay well inside the floating-point range
    {
        let n = p.x.len();
        let h = (p.x[1].as_f64() - p.x[0].as_f64()).min(p.x[n - 1].as_f64() - p.x[n - 2].as_f64());
        let limit = if T::NAME == "f32" { (2.0f64).powi(28) } else { (2.0f64).powi(300) };
        qout.extend(gen::queries_far(&p.x, true).into_iter().filter(|v| {
            let d = (v.as_f64() - p.x[0].as_f64()).abs().max((v.as_f64() - p.x[n - 1].as_f64()).abs());
            d / h < limit
        }));
    }
    let extra: Vec<(&str, String)> = p.poly.iter().map(|s| ("poly", s.clone())).collect();
    let exs: &[bool] = if extrap { &[false, true] } else { &[false] };
    for &ex in exs {
        let b = match do_build1(tr, &cfg, &Strat1::Spline { ex, bc: p.bc.clone() }, &extra) {
            Some(b) => b,
            None => continue,
        };
        b.q_batch(tr, &qin);
        if ex {
            b.q_batch(tr, &qout);
        } else {
            for &q in qout.iter().take(2) {
                b.q(tr, Entry::Interp, "-", &scalar_q(q), Lay::C);
            }
        }
        let q0 = *rng.pick(&qin);
        b.q(tr, Entry::Interp, "-", &scalar_q(q0), Lay::C);
        if p.data.ndim() == 1 && !dynamic {
            b.q(tr, Entry::Scalar, "-", &scalar_q(q0), Lay::C);
        }
    }
}

fn mesh_axis<T: FEl>(rng: &mut Rng, n: usize) -> Vec<T> {
    let ratio = if T::NAME == "f32" { 8.0 } else { 64.0 };
    for _ in 0..50 {
        let mut v = match rng.below(6) {
            0 => (0..n).map(|i| i as f64 + 2.0).collect::<Vec<f64>>(),
            1 => gen::axis_mesh(rng, n, ratio, if T::NAME == "f32" { 3 } else { 6 }),
            2 => {
                let mf = rng.bool();
                gen::axis_coincidence(rng, n, mf)
            }
            _ => gen::axis_mesh(rng, n, ratio, 0),
        };
        // a power-of-two change of the axis unit (exact): tiny and huge units now and then
        let k: i32 = *rng.pick(&[0, 0, 0, 0, -24, 20, -10]);
        let k = if T::NAME == "f32" { k / 3 } else { k };
        if k != 0 {
            let f = (2.0f64).powi(k);
            for a in v.iter_mut() {
                *a *= f;
            }
        }
        if let Some(a) = gen::axis_as::<T>(&v) {
            return a;
        }
    }
    (0..n).map(|i| T::of_f64(i as f64)).collect()
}

fn pick_n<T: FEl>(rng: &mut Rng, i: usize, thorough: bool) -> usize {
    let maxn = if T::NAME == "f32" { 16 } else if thorough { 40 } else { 14 };
    match i % 4 {
        0 => 3,
        1 => 4,
        _ => 5 + rng.below(maxn - 4),
    }
}

/// every ordered pair of single-end conditions, the global forms, per-lane assignments
fn boundaries<T: FEl>(tr: &mut Trace, rng: &mut Rng, thorough: bool) {
    let mut i = 0usize;
    let reps = if thorough { 6 } else { 1 };
    for _ in 0..reps {
        // 25 ordered pairs, one lane each
        for l in SINGLES {
            for r in SINGLES {
                if i % 5 == 0 {
                    tr.reset("spline-pairs");
                }
                let n = pick_n::<T>(rng, i, thorough);
                let x = mesh_axis::<T>(rng, n);
                let dc = gen::DATA_CLASSES[rng.below(4)];
                let data = gen::data::<T>(rng, &[n], dc);
                let rows = ArrayD::from_shape_vec(IxDyn(&[1]), vec![RowB::Mixed(side(rng, l), side(rng, r))]).unwrap();
                run_plan(tr, rng, &Plan { x, data, bc: Bc::Individual(rows), poly: None }, 4, i % 3 == 0);
                i += 1;
            }
        }
        // global forms on multi-lane data
        for g in ["NotAKnot", "Natural", "Clamped"] {
            for n in [3usize, 4, 7] {
                tr.reset("spline-global");
                let x = mesh_axis::<T>(rng, n);
                let trailing = gen::TRAILING[1 + rng.below(4)];
                let mut shape = vec![n];
                shape.extend_from_slice(trailing);
                let data = gen::data::<T>(rng, &shape, "uniform");
                run_plan(tr, rng, &Plan { x, data, bc: Bc::Global(g), poly: None }, 4, true);
            }
        }
        // per-lane assignments: a different condition in every lane
        for trailing in [&[3usize][..], &[2, 2], &[2, 3], &[1, 2, 2]] {
            tr.reset("spline-individual");
            let n = pick_n::<T>(rng, i, thorough);
            i += 1;
            let x = mesh_axis::<T>(rng, n);
            let mut shape = vec![n];
            shape.extend_from_slice(trailing);
            let data = gen::data::<T>(rng, &shape, "uniform");
            let mut bshape = vec![1usize];
            bshape.extend_from_slice(trailing);
            let lanes: usize = trailing.iter().product();
            let rows: Vec<RowB<T>> = (0..lanes)
                .map(|_| match rng.below(4) {
                    0 => RowB::Row(*rng.pick(&["NotAKnot", "Natural", "Clamped"])),
                    _ => {
                        let l = *rng.pick(&SINGLES);
                        let r = *rng.pick(&SINGLES);
                        RowB::Mixed(side(rng, l), side(rng, r))
                    }
                })
                .collect();
            let rows = ArrayD::from_shape_vec(IxDyn(&bshape), rows).unwrap();
            run_plan(tr, rng, &Plan { x, data, bc: Bc::Individual(rows), poly: None }, 3, true);
        }
    }
}

pub fn spline(tr: &mut Trace, rng: &mut Rng, thorough: bool) {
    boundaries::<f64>(tr, rng, thorough);
    boundaries::<f32>(tr, rng, thorough);
}

/// periodic data sets (first row == last row), queries many periods away (C07)
fn periodic_one<T: FEl>(tr: &mut Trace, rng: &mut Rng, n: usize, trailing: &[usize]) {
    let x = mesh_axis::<T>(rng, n);
    // every other axis is moved whole periods away from the origin (left and right): a wrap computed relative to 0
    // instead of the first axis value only shows when |x0| exceeds the period
    let x: Vec<T> = {
        static COUNTER: std::sync::atomic::AtomicUsize = std::sync::atomic::AtomicUsize::new(0);
        let c = COUNTER.fetch_add(1, std::sync::atomic::Ordering::Relaxed);
        let k = [0.0, 7.0, 0.0, -5.0, 3.0, -11.0][c % 6];
        let span = x[n - 1].as_f64() - x[0].as_f64();
        let moved: Vec<f64> = x.iter().map(|v| v.as_f64() + k * span).collect();
        match gen::axis_as::<T>(&moved) {
            Some(m) if k != 0.0 => m,
            _ => x,
        }
    };
    let mut shape = vec![n];
    shape.extend_from_slice(trailing);
    let mut data = gen::data::<T>(rng, &shape, "uniform");
    let first = data.index_axis(ndarray::Axis(0), 0).to_owned();
    data.index_axis_mut(ndarray::Axis(0), n - 1).assign(&first);
    let (store, dlay, xlay) = gen::next_layout();
    let dr = real(&data, dlay);
    let xr = real1(&x, xlay);
    let cfg = Cfg1 { x: Some(&xr), data: &dr, dtag: dtag_for(shape.len(), false), store };
    let lo = x[0].as_f64();
    let hi = x[n - 1].as_f64();
    let p = hi - lo;
    for ex in [false, true] {
        let b = match do_build1(tr, &cfg, &Strat1::Spline { ex, bc: Bc::Global("Periodic") }, &[]) {
            Some(b) => b,
            None => continue,
        };
        let qin = dense_queries(&x, 3);
        b.q_batch(tr, &qin);
        if !ex {
            b.q(tr, Entry::Interp, "-", &scalar_q(T::of_f64(hi + p)), Lay::C);
            continue;
        }
        let mut qs: Vec<T> = vec![];
        // whole periods away: near, far, and beyond 2^31 / 2^40 periods (any finite query must be answered)
        let ks: [f64; 15] = [1.0, -1.0, 2.0, -2.0, 3.0, -3.0, 1e3, -1e3, 1e6, -1e6, 7.0, 3221225472.0, -8589934592.0, 35184372088832.0, -1099511627776.0];
        for _ in 0..6 {
            let base = rng.uniform(lo, hi);
            for k in ks {
                qs.push(T::of_f64(base + k * p));
            }
        }
        // ends, their images, a few ulps either side
        for k in [0.0, 1.0, -1.0, 2.0, -3.0] {
            for e in [lo, hi] {
                let c = T::of_f64(e + k * p);
                qs.push(c);
                qs.push(c.next_up());
                qs.push(c.next_down());
                qs.push(c.next_up().next_up());
                qs.push(c.next_down().next_down());
            }
        }
        qs.retain(|v| v.as_f64().is_finite());
        b.q_batch(tr, &qs);
        b.q(tr, Entry::Interp, "-", &scalar_q(qs[0]), Lay::C);
    }
}

pub fn periodic(tr: &mut Trace, rng: &mut Rng, thorough: bool) {
    let reps = if thorough { 40 } else { 8 };
    for i in 0..reps {
        if i % 3 == 0 {
            tr.reset("periodic");
        }
        let n = match i % 4 {
            0 => 3,
            1 => 4,
            _ => 5 + rng.below(if thorough { 30 } else { 9 }),
        };
        let trailing = gen::TRAILING[rng.below(4)];
        if i % 3 == 2 {
            periodic_one::<f32>(tr, rng, n.min(12), trailing);
        } else {
            periodic_one::<f64>(tr, rng, n, trailing);
        }
    }
}

/// data sampled from polynomials the method can represent (C16)
fn poly_one<T: FEl>(tr: &mut Trace, rng: &mut Rng, n: usize, lanes: usize, i: usize) {
    let f32m = T::NAME == "f32";
    // data in a non-standard memory layout always has several lanes on two trailing axes, each with its own
    // polynomial: only then "contiguous but not row-major" lanes (RevTrail, PermTrail) differ from plain ones
    let lay = gen::next_layout();
    let (lanes, two_axes) = if lay.1 != Lay::C { (if lanes >= 4 { lanes } else { 4 + 2 * (i % 2) }, true) } else { (lanes, lanes % 2 == 0 && i % 2 == 1) };
    // dyadic grid axis with few bits so that p(x) is exact
    let (gb, kmax, amax, cb) = if f32m { (1u32, 12i64, 3i64, 0u32) } else { (4u32, 200i64, 20i64, 3u32) };
    let mut k: i64 = rng.range(-kmax / 2, 0);
    let mut xf = vec![];
    for _ in 0..n {
        xf.push(k as f64 / (1u64 << gb) as f64);
        k += rng.range(1, if f32m { 3 } else { 24 });
    }
    // the axis unit: the polynomial is sampled in the variable u = x / unit, so data and derivative values stay exact
    let unit_k: i32 = if f32m { *rng.pick(&[0, 0, -6, 5]) } else { *rng.pick(&[0, 0, 0, -24, 16, -12]) };
    let unit = (2.0f64).powi(unit_k);
    let uf = xf.clone();
    let xf: Vec<f64> = uf.iter().map(|u| u * unit).collect();
    let x: Vec<T> = xf.iter().map(|&v| T::of_f64(v)).collect();
    // choose the end conditions first, then an admissible degree per lane
    let lk = *rng.pick(&["NotAKnot", "FirstDeriv", "SecondDeriv", "Natural", "Clamped"]);
    let rk = *rng.pick(&["NotAKnot", "FirstDeriv", "SecondDeriv", "Natural", "Clamped"]);
    let (lk, rk) = if i % 4 == 0 { ("NotAKnot", "NotAKnot") } else { (lk, rk) };
    let mut maxdeg = 3usize;
    if lk == "Natural" || rk == "Natural" {
        maxdeg = 1;
    }
    if lk == "Clamped" || rk == "Clamped" {
        maxdeg = 0;
    }
    if n == 3 && lk == "NotAKnot" && rk == "NotAKnot" {
        maxdeg = maxdeg.min(2);
    }
    let mut vals = vec![T::of_f64(0.0); n * lanes];
    let mut rows = vec![];
    let mut polys = vec![];
    for j in 0..lanes {
        let deg = if j == 0 { maxdeg } else { rng.below(maxdeg + 1) };
        let p = gen::DyPoly::random(rng, deg, amax, cb);
        for (r, &uv) in uf.iter().enumerate() {
            vals[r * lanes + j] = T::of_f64(p.eval(uv));
        }
        // derivatives with respect to x = u * unit
        let mk = |kind: &'static str, at: f64| -> Side<T> {
            match kind {
                "FirstDeriv" => Side { kind, val: Some(T::of_f64(p.d1(at) / unit)) },
                "SecondDeriv" => Side { kind, val: Some(T::of_f64(p.d2(at) / (unit * unit))) },
                _ => Side { kind, val: None },
            }
        };
        rows.push(RowB::Mixed(mk(lk, uf[0]), mk(rk, uf[n - 1])));
        // coefficients of the polynomial in x
        let cs: Vec<String> = (0..4).map(|d| T::of_f64(p.coef(d) / unit.powi(d as i32)).pay()).collect();
        polys.push(jarr_s(&cs));
    }
    // an even number of lanes is laid out on two trailing axes every other time (lane number = row-major position)
    let trailing: Vec<usize> = if two_axes { vec![2, lanes / 2] } else { vec![lanes] };
    let mut dshape = vec![n];
    dshape.extend_from_slice(&trailing);
    let mut bshape = vec![1usize];
    bshape.extend_from_slice(&trailing);
    let data = ArrayD::from_shape_vec(IxDyn(&dshape), vals).unwrap();
    let rows = ArrayD::from_shape_vec(IxDyn(&bshape), rows).unwrap();
    let plan = Plan { x, data, bc: Bc::Individual(rows), poly: Some(jarr_raw(&polys)) };
    run_plan_lay(tr, rng, &plan, 4, true, lay);
}

pub fn poly(tr: &mut Trace, rng: &mut Rng, thorough: bool) {
    let reps = if thorough { 150 } else { 24 };
    for i in 0..reps {
        if i % 4 == 0 {
            tr.reset("poly");
        }
        let n = match i % 5 {
            0 => 3,
            1 => 4,
            2 => 5,
            _ => 6 + rng.below(if thorough { 20 } else { 6 }),
        };
        let lanes = [1, 2, 3, 4, 6][rng.below(5)];
        if i % 3 == 2 {
            poly_one::<f32>(tr, rng, n.min(8), lanes, i);
        } else {
            poly_one::<f64>(tr, rng, n, lanes, i);
        }
    }
    // default strategy (global NotAKnot) on a cubic: the textbook case
    tr.reset("poly-default");
    for n in [4usize, 5, 9] {
        let xf: Vec<f64> = match n {
            5 => vec![0.0, 1.0, 3.0, 4.0, 8.0],
            _ => {
                let mut k = -3i64;
                (0..n)
                    .map(|_| {
                        let v = k as f64 / 4.0;
                        k += rng.range(1, 9);
                        v
                    })
                    .collect()
            }
        };
        let p = gen::DyPoly::random(rng, 3, 8, 2);
        let x: Vec<f64> = xf.clone();
        let vals: Vec<f64> = xf.iter().map(|&v| p.eval(v)).collect();
        let data = ArrayD::from_shape_vec(IxDyn(&[n]), vals).unwrap();
        let cs: Vec<String> = (0..4).map(|d| p.coef(d).pay()).collect();
        let plan = Plan { x, data, bc: Bc::Global("NotAKnot"), poly: Some(jarr_raw(&[jarr_s(&cs)])) };
        run_plan(tr, rng, &plan, 4, true);
    }
}

//! Scenario helpers: build + record, query + record.

use crate::build::*;
use crate::dynif::*;
use crate::el::*;
use crate::lay::*;
use crate::rec::*;
use ndarray::ArrayD;

pub struct B1<'a, T: El> {
    pub id: usize,
    pub it: Box1<'a, T>,
    pub custom: Option<CustomCfg>,
    pub trailing: Vec<usize>,
}

pub struct B2<'a, T: El> {
    pub id: usize,
    pub it: Box2<'a, T>,
    pub custom: Option<CustomCfg>,
    pub trailing: Vec<usize>,
}

/// build (float element types, any strategy) and record the `B1` event
pub fn do_build1<'a, T: FEl>(
    tr: &mut Trace,
    cfg: &Cfg1<'a, T>,
    strat: &Strat1<T>,
    extra: &[(&str, String)],
) -> Option<B1<'a, T>> {
    let b = build1(cfg, strat);
    finish1(tr, cfg, strat, b, extra)
}

/// build (any element type, Linear / Custom) and record the `B1` event
pub fn do_build1_lin<'a, T: El>(
    tr: &mut Trace,
    cfg: &Cfg1<'a, T>,
    strat: &Strat1<T>,
    extra: &[(&str, String)],
) -> Option<B1<'a, T>> {
    let b = build1_lin(cfg, strat);
    finish1(tr, cfg, strat, b, extra)
}

fn finish1<'a, T: El>(
    tr: &mut Trace,
    cfg: &Cfg1<'a, T>,
    strat: &Strat1<T>,
    b: Built<Box1<'a, T>>,
    extra: &[(&str, String)],
) -> Option<B1<'a, T>> {
    if b.out == "NA" {
        return None;
    }
    let id = tr.build1_event(cfg, strat, &b.out, &b.msg, extra);
    let custom = if let Strat1::Custom(c) = strat { Some(c.clone()) } else { None };
    let sh = cfg.data.shape.clone();
    b.it.map(|it| B1 { id, it, custom, trailing: if sh.is_empty() { vec![] } else { sh[1..].to_vec() } })
}

pub fn do_build2<'a, T: El>(
    tr: &mut Trace,
    cfg: &Cfg2<'a, T>,
    strat: &Strat2,
    extra: &[(&str, String)],
) -> Option<B2<'a, T>> {
    let b = build2(cfg, strat);
    if b.out == "NA" {
        return None;
    }
    let id = tr.build2_event(cfg, strat, &b.out, &b.msg, extra);
    let custom = if let Strat2::Custom(c) = strat { Some(c.clone()) } else { None };
    let sh = cfg.data.shape.clone();
    b.it.map(|it| B2 { id, it, custom, trailing: if sh.len() < 2 { vec![] } else { sh[2..].to_vec() } })
}

impl<'a, T: El> B1<'a, T> {
    /// query through `entry`; the buffer (if the entry point takes one) has the required shape and layout `blay`
    pub fn q(&self, tr: &mut Trace, entry: Entry, qtag: &'static str, q: &Realized<T>, blay: Lay) -> String {
        let buf = match entry {
            Entry::Into => Some(BufSpec { shape: self.trailing.clone(), lay: blay }),
            Entry::ArrayInto => {
                let mut s = q.shape.clone();
                s.extend_from_slice(&self.trailing);
                Some(BufSpec { shape: s, lay: blay })
            }
            _ => None,
        };
        self.q_buf(tr, entry, qtag, q, buf)
    }

    pub fn q_buf(&self, tr: &mut Trace, entry: Entry, qtag: &'static str, q: &Realized<T>, buf: Option<BufSpec>) -> String {
        let it = &self.it;
        tr.query(self.id, &|c| it.query(c), false, entry, qtag, q, None, buf, self.custom.as_ref())
    }

    /// every single-point query of `qs` through `interp_array` with a static 1-d query (the fast path)
    pub fn q_batch(&self, tr: &mut Trace, qs: &[T]) -> String {
        let q = arr_q(&[qs.len()], qs.to_vec(), Lay::C);
        self.q(tr, Entry::Array, "Ix1", &q, Lay::C)
    }
}

impl<'a, T: El> B2<'a, T> {
    pub fn q(&self, tr: &mut Trace, entry: Entry, qtag: &'static str, qx: &Realized<T>, qy: &Realized<T>, blay: Lay) -> String {
        let buf = match entry {
            Entry::Into => Some(BufSpec { shape: self.trailing.clone(), lay: blay }),
            Entry::ArrayInto => {
                let mut s = qx.shape.clone();
                s.extend_from_slice(&self.trailing);
                Some(BufSpec { shape: s, lay: blay })
            }
            _ => None,
        };
        self.q_buf(tr, entry, qtag, qx, qy, buf)
    }

    pub fn q_buf(
        &self,
        tr: &mut Trace,
        entry: Entry,
        qtag: &'static str,
        qx: &Realized<T>,
        qy: &Realized<T>,
        buf: Option<BufSpec>,
    ) -> String {
        let it = &self.it;
        tr.query(self.id, &|c| it.query(c), true, entry, qtag, qx, Some(qy), buf, self.custom.as_ref())
    }

    pub fn q_batch(&self, tr: &mut Trace, qx: &[T], qy: &[T]) -> String {
        let a = arr_q(&[qx.len()], qx.to_vec(), Lay::C);
        let b = arr_q(&[qy.len()], qy.to_vec(), Lay::C);
        self.q(tr, Entry::Array, "Ix1", &a, &b, Lay::C)
    }
}

pub fn dtag_for(rank: usize, dynamic: bool) -> &'static str {
    if dynamic {
        return "IxDyn";
    }
    match rank {
        0 => "Ix0",
        1 => "Ix1",
        2 => "Ix2",
        3 => "Ix3",
        4 => "Ix4",
        5 => "Ix5",
        6 => "Ix6",
        _ => "IxDyn",
    }
}

pub fn real<T: El>(a: &ArrayD<T>, lay: Lay) -> Realized<T> {
    Realized::new(a, lay)
}

pub fn real1<T: El>(v: &[T], lay: Lay) -> Realized<T> {
    Realized::new(&ArrayD::from_shape_vec(ndarray::IxDyn(&[v.len()]), v.to_vec()).unwrap(), lay)
}

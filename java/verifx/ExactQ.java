package verifx;

import java.math.BigInteger;

import tlc2.overrides.TLAPlusOperator;
import tlc2.value.impl.BoolValue;
import tlc2.value.impl.IntValue;
import tlc2.value.impl.StringValue;
import tlc2.value.impl.Value;

/**
 * Exact rational arithmetic for the TLA+ module ExactQ.
 *
 * A rational is a TLA+ string in canonical form: "n" or "n/d" with d > 1, gcd(n,d) = 1.
 * Canonical form makes TLA+ equality, fingerprints and printing coincide with numeric equality.
 * Only scalar primitives live here; everything else (brackets, blends, spline systems,
 * tolerances, verdicts) is written in TLA+ on top of them.
 */
public final class ExactQ {
    private ExactQ() {}

    private static final class Q {
        final BigInteger n, d;
        Q(BigInteger n, BigInteger d) {
            if (d.signum() == 0) throw new ArithmeticException("ExactQ: division by zero");
            if (d.signum() < 0) { n = n.negate(); d = d.negate(); }
            BigInteger g = n.gcd(d);
            if (!g.equals(BigInteger.ONE)) { n = n.divide(g); d = d.divide(g); }
            this.n = n; this.d = d;
        }
        /** already reduced, d > 0 */
        Q(BigInteger n, BigInteger d, boolean reduced) { this.n = n; this.d = d; }
    }

    // Knuth's gcd-saving rational arithmetic (TAOCP 4.5.1): the gcds are taken of the (smaller)
    // denominators / cross pairs instead of the full-size results.
    private static Q addQ(Q x, Q y, boolean negate) {
        BigInteger yn = negate ? y.n.negate() : y.n;
        if (x.d.equals(BigInteger.ONE) && y.d.equals(BigInteger.ONE)) return new Q(x.n.add(yn), BigInteger.ONE, true);
        BigInteger g = x.d.gcd(y.d);
        if (g.equals(BigInteger.ONE)) {
            return new Q(x.n.multiply(y.d).add(yn.multiply(x.d)), x.d.multiply(y.d), true);
        }
        BigInteger xd = x.d.divide(g), yd = y.d.divide(g);
        BigInteger t = x.n.multiply(yd).add(yn.multiply(xd));
        if (t.signum() == 0) return new Q(BigInteger.ZERO, BigInteger.ONE, true);
        BigInteger g2 = t.gcd(g);
        if (g2.equals(BigInteger.ONE)) return new Q(t, xd.multiply(y.d), true);
        return new Q(t.divide(g2), xd.multiply(y.d.divide(g2)), true);
    }

    private static Q mulQ(BigInteger an, BigInteger ad, BigInteger bn, BigInteger bd) {
        // (an/ad) * (bn/bd), both reduced, denominators positive
        if (an.signum() == 0 || bn.signum() == 0) return new Q(BigInteger.ZERO, BigInteger.ONE, true);
        BigInteger g1 = an.gcd(bd), g2 = bn.gcd(ad);
        if (!g1.equals(BigInteger.ONE)) { an = an.divide(g1); bd = bd.divide(g1); }
        if (!g2.equals(BigInteger.ONE)) { bn = bn.divide(g2); ad = ad.divide(g2); }
        return new Q(an.multiply(bn), ad.multiply(bd), true);
    }

    // Parsed values are cached by the interned token of the string (a bounded map): the same
    // coefficients are used by thousands of evaluations, and decimal <-> BigInteger conversion of
    // numbers with hundreds of digits would otherwise dominate.  Large values are written in hex
    // ("#<hex num>/<hex den>"), small ones in decimal so that TLA+ literals like "6" or "-1/2" work.
    // Both forms are canonical: a value has exactly one string.
    private static final int CACHE_MAX = 400_000;
    private static final java.util.concurrent.ConcurrentHashMap<String, Q> CACHE = new java.util.concurrent.ConcurrentHashMap<>(1 << 16);

    private static void remember(String s, Q q) {
        if (CACHE.size() > CACHE_MAX) CACHE.clear();     // crude bound; entries are cheap to recompute
        CACHE.put(s, q);
    }

    private static Q parse(Value v) {
        String s = ((StringValue) v).getVal().toString();
        Q c = CACHE.get(s);
        if (c != null) return c;
        try {
            Q q;
            if (s.startsWith("#")) {
                int i = s.indexOf('/');
                q = new Q(new BigInteger(s.substring(1, i), 16), new BigInteger(s.substring(i + 1), 16));
            } else {
                int i = s.indexOf('/');
                if (i < 0) q = new Q(new BigInteger(s), BigInteger.ONE);
                else q = new Q(new BigInteger(s.substring(0, i)), new BigInteger(s.substring(i + 1)));
            }
            remember(s, q);
            return q;
        } catch (NumberFormatException e) {
            throw new ArithmeticException("ExactQ: not a rational: \"" + s + "\"");
        }
    }

    private static Value fmt(Q q) {
        String s;
        if (q.n.bitLength() <= 62 && q.d.bitLength() <= 62) {
            s = q.d.equals(BigInteger.ONE) ? q.n.toString() : q.n.toString() + "/" + q.d.toString();
        } else {
            s = "#" + q.n.toString(16) + "/" + q.d.toString(16);
        }
        remember(s, q);
        return new StringValue(s);
    }

    private static String str(Value v) { return ((StringValue) v).getVal().toString(); }

    @TLAPlusOperator(identifier = "QI", module = "ExactQ", warn = false)
    public static Value qi(final IntValue n) { return new StringValue(Integer.toString(n.val)); }

    @TLAPlusOperator(identifier = "QAdd", module = "ExactQ", warn = false)
    public static Value add(final Value a, final Value b) {
        return fmt(addQ(parse(a), parse(b), false));
    }

    @TLAPlusOperator(identifier = "QSub", module = "ExactQ", warn = false)
    public static Value sub(final Value a, final Value b) {
        return fmt(addQ(parse(a), parse(b), true));
    }

    @TLAPlusOperator(identifier = "QMul", module = "ExactQ", warn = false)
    public static Value mul(final Value a, final Value b) {
        Q x = parse(a), y = parse(b);
        return fmt(mulQ(x.n, x.d, y.n, y.d));
    }

    @TLAPlusOperator(identifier = "QDiv", module = "ExactQ", warn = false)
    public static Value div(final Value a, final Value b) {
        Q x = parse(a), y = parse(b);
        if (y.n.signum() == 0) throw new ArithmeticException("ExactQ: division by zero");
        if (y.n.signum() < 0) return fmt(mulQ(x.n, x.d, y.d.negate(), y.n.negate()));
        return fmt(mulQ(x.n, x.d, y.d, y.n));
    }

    @TLAPlusOperator(identifier = "QNeg", module = "ExactQ", warn = false)
    public static Value neg(final Value a) { Q x = parse(a); return fmt(new Q(x.n.negate(), x.d)); }

    @TLAPlusOperator(identifier = "QAbs", module = "ExactQ", warn = false)
    public static Value abs(final Value a) { Q x = parse(a); return fmt(new Q(x.n.abs(), x.d)); }

    private static int cmp(Value a, Value b) {
        Q x = parse(a), y = parse(b);
        return x.n.multiply(y.d).compareTo(y.n.multiply(x.d));
    }

    @TLAPlusOperator(identifier = "QLt", module = "ExactQ", warn = false)
    public static Value lt(final Value a, final Value b) { return cmp(a, b) < 0 ? BoolValue.ValTrue : BoolValue.ValFalse; }

    @TLAPlusOperator(identifier = "QLe", module = "ExactQ", warn = false)
    public static Value le(final Value a, final Value b) { return cmp(a, b) <= 0 ? BoolValue.ValTrue : BoolValue.ValFalse; }

    @TLAPlusOperator(identifier = "QSign", module = "ExactQ", warn = false)
    public static Value sign(final Value a) { return IntValue.gen(parse(a).n.signum()); }

    /** floor(a) as an integer rational */
    @TLAPlusOperator(identifier = "QFloor", module = "ExactQ", warn = false)
    public static Value floor(final Value a) {
        Q x = parse(a);
        BigInteger[] qr = x.n.divideAndRemainder(x.d);
        BigInteger f = qr[0];
        if (qr[1].signum() < 0) f = f.subtract(BigInteger.ONE);
        return new StringValue(f.toString());
    }

    /** 2^k for any TLA+ integer k */
    @TLAPlusOperator(identifier = "QPow2", module = "ExactQ", warn = false)
    public static Value pow2(final IntValue k) {
        if (k.val >= 0) return fmt(new Q(BigInteger.ONE.shiftLeft(k.val), BigInteger.ONE));
        return fmt(new Q(BigInteger.ONE, BigInteger.ONE.shiftLeft(-k.val)));
    }

    /** integer rational -> TLA+ integer (must fit 32 bit) */
    @TLAPlusOperator(identifier = "QToInt", module = "ExactQ", warn = false)
    public static Value toInt(final Value a) {
        Q x = parse(a);
        if (!x.d.equals(BigInteger.ONE) || x.n.bitLength() > 31)
            throw new ArithmeticException("ExactQ: QToInt of non-integer or out-of-range value");
        return IntValue.gen(x.n.intValue());
    }

    /**
     * Decode a logged number. elem in {"f64","f32"}: payload is the hex bit pattern; result is
     * "NaN", "+Inf", "-Inf" or the exact rational value (both zeros give "0").
     * elem in {"i32","i64"}: payload is a decimal integer.
     */
    @TLAPlusOperator(identifier = "QDecode", module = "ExactQ", warn = false)
    public static Value decode(final Value elem, final Value payload) {
        String e = str(elem), p = str(payload);
        if (e.equals("f64")) {
            long bits = Long.parseUnsignedLong(p, 16);
            boolean neg = (bits >>> 63) != 0;
            int ex = (int) ((bits >>> 52) & 0x7ff);
            long man = bits & 0xfffffffffffffL;
            if (ex == 0x7ff) return new StringValue(man != 0 ? "NaN" : (neg ? "-Inf" : "+Inf"));
            return fmt(ieee(neg, ex, man, 52, 1023));
        } else if (e.equals("f32")) {
            long bits = Long.parseUnsignedLong(p, 16);
            boolean neg = ((bits >>> 31) & 1) != 0;
            int ex = (int) ((bits >>> 23) & 0xff);
            long man = bits & 0x7fffffL;
            if (ex == 0xff) return new StringValue(man != 0 ? "NaN" : (neg ? "-Inf" : "+Inf"));
            return fmt(ieee(neg, ex, man, 23, 127));
        } else if (e.equals("i32") || e.equals("i64")) {
            return fmt(new Q(new BigInteger(p), BigInteger.ONE));
        }
        throw new ArithmeticException("ExactQ: unknown element type " + e);
    }

    private static Q ieee(boolean neg, int ex, long man, int mbits, int bias) {
        BigInteger m; int e2;
        if (ex == 0) { m = BigInteger.valueOf(man); e2 = 1 - bias - mbits; }
        else { m = BigInteger.valueOf(man | (1L << mbits)); e2 = ex - bias - mbits; }
        if (neg) m = m.negate();
        if (e2 >= 0) return new Q(m.shiftLeft(e2), BigInteger.ONE);
        return new Q(m, BigInteger.ONE.shiftLeft(-e2));
    }

    /** sign bit of a logged float (TRUE for negative incl. -0.0); integers: value < 0 */
    @TLAPlusOperator(identifier = "QSignBit", module = "ExactQ", warn = false)
    public static Value signBit(final Value elem, final Value payload) {
        String e = str(elem), p = str(payload);
        boolean neg;
        if (e.equals("f64")) neg = (Long.parseUnsignedLong(p, 16) >>> 63) != 0;
        else if (e.equals("f32")) neg = ((Long.parseUnsignedLong(p, 16) >>> 31) & 1) != 0;
        else neg = p.startsWith("-");
        return neg ? BoolValue.ValTrue : BoolValue.ValFalse;
    }

    /**
     * Round an exact rational to the nearest representable value of elem (ties to even) and return
     * its payload (hex bits for floats). Used only to state what "the float nearest to the exact
     * answer" is in diagnostics and in the truncation semantics of integer element types.
     */
    @TLAPlusOperator(identifier = "QRound", module = "ExactQ", warn = false)
    public static Value round(final Value elem, final Value a) {
        String e = str(elem);
        Q x = parse(a);
        if (e.equals("f64")) {
            double dv = roundToDouble(x);
            return new StringValue(String.format("%016x", Double.doubleToRawLongBits(dv)));
        } else if (e.equals("f32")) {
            float fv = roundToFloat(x);
            return new StringValue(String.format("%08x", Float.floatToRawIntBits(fv)));
        }
        // integers: truncation toward zero
        BigInteger t = x.n.divide(x.d);
        return new StringValue(t.toString());
    }

    private static double roundToDouble(Q x) {
        // exact round-to-nearest-even via scaled integer division
        if (x.n.signum() == 0) return 0.0;
        boolean neg = x.n.signum() < 0;
        BigInteger n = x.n.abs(), d = x.d;
        int e = n.bitLength() - d.bitLength();          // 2^(e-1) <= n/d < 2^(e+1)
        int shift = 54 - e;                              // want ~55 significant bits in quotient
        BigInteger num = shift >= 0 ? n.shiftLeft(shift) : n, den = shift >= 0 ? d : d.shiftLeft(-shift);
        BigInteger[] qr = num.divideAndRemainder(den);
        BigInteger q = qr[0];
        if (qr[1].signum() != 0) q = q.shiftLeft(1).or(BigInteger.ONE); else q = q.shiftLeft(1); // sticky
        // value = q * 2^(-shift-1); let Java do the final correctly-rounded conversion of an integer with sticky bit
        int qb = q.bitLength();
        // reduce to at most 64 bits preserving sticky
        if (qb > 62) {
            int cut = qb - 62;
            BigInteger low = q.and(BigInteger.ONE.shiftLeft(cut).subtract(BigInteger.ONE));
            q = q.shiftRight(cut);
            if (low.signum() != 0) q = q.or(BigInteger.ONE);
            shift -= cut;
        }
        // q has <= 62 bits with sticky in the lowest bit and >= 55 significant bits => rounding of q to 53 bits is correct
        double r = Math.scalb((double) q.longValue(), -shift - 1);
        return neg ? -r : r;
    }

    private static float roundToFloat(Q x) {
        if (x.n.signum() == 0) return 0.0f;
        boolean neg = x.n.signum() < 0;
        BigInteger n = x.n.abs(), d = x.d;
        int e = n.bitLength() - d.bitLength();
        int shift = 30 - e;
        BigInteger num = shift >= 0 ? n.shiftLeft(shift) : n, den = shift >= 0 ? d : d.shiftLeft(-shift);
        BigInteger[] qr = num.divideAndRemainder(den);
        BigInteger q = qr[0].shiftLeft(1);
        if (qr[1].signum() != 0) q = q.or(BigInteger.ONE);
        // q has ~31-33 bits incl. sticky; exact in double; double->float rounding of (q with sticky) is correct
        double dq = Math.scalb((double) q.longValue(), -shift - 1);
        float r = (float) dq;
        return neg ? -r : r;
    }
}

package verifx;

import tlc2.overrides.ITLCOverrides;

/** Registers the ExactQ operator overrides with TLC (-Dtlc2.overrides.TLCOverrides=...:verifx.Overrides). */
public class Overrides implements ITLCOverrides {
    @SuppressWarnings("rawtypes")
    @Override
    public Class[] get() {
        return new Class[] { ExactQ.class };
    }
}

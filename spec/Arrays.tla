-------------------------------- MODULE Arrays --------------------------------
(***************************************************************************)
(* Logical n-dimensional arrays: a shape and the elements in row-major     *)
(* (logical) order.  No strides, no ownership - memory layout exists only  *)
(* in module Buffers.                                                      *)
(***************************************************************************)
LOCAL INSTANCE Naturals
LOCAL INSTANCE Integers
LOCAL INSTANCE Sequences

RECURSIVE ProdFrom(_, _)
ProdFrom(s, i) == IF i > Len(s) THEN 1 ELSE s[i] * ProdFrom(s, i + 1)
Prod(s) == ProdFrom(s, 1)

Drop(s, k) == IF k >= Len(s) THEN <<>> ELSE SubSeq(s, k + 1, Len(s))
Take(s, k) == IF k >= Len(s) THEN s ELSE SubSeq(s, 1, k)

\* shape of the data without the k interpolated axes, and the number of lanes
Trailing(dshape, k) == Drop(dshape, k)
Lanes(dshape, k) == Prod(Trailing(dshape, k))

\* C09: result shape = query shape followed by the trailing data dims
OutShape(qshape, dshape, k) == qshape \o Trailing(dshape, k)

\* row-major strides (in elements) of a shape
RowMajorStrides(s) == [i \in 1..Len(s) |-> ProdFrom(s, i + 1)]

\* 0-based flat row-major index -> 0-based index tuple
Unflatten(f, s) ==
    LET st == RowMajorStrides(s)
    IN  [i \in 1..Len(s) |-> IF s[i] = 0 THEN 0 ELSE (f \div st[i]) % s[i]]

RECURSIVE DotFrom(_, _, _)
DotFrom(a, b, i) == IF i > Len(a) THEN 0 ELSE a[i] * b[i] + DotFrom(a, b, i + 1)
Dot(a, b) == DotFrom(a, b, 1)
Flatten(idx, s) == Dot(idx, RowMajorStrides(s))

\* The logical result of a batch query: element k (0-based, row major) of the result belongs to
\* query element (k \div L) and lane (k % L), L = number of lanes.
QIndexOf(k, L) == k \div L
LaneOf(k, L) == k % L
=============================================================================

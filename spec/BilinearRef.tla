----------------------------- MODULE BilinearRef -----------------------------
(***************************************************************************)
(* Declarative reference for bilinear interpolation on a rectilinear grid  *)
(* (C04, C06, C20) in exact arithmetic.                                     *)
(***************************************************************************)
EXTENDS LinearRef
LOCAL INSTANCE Naturals
LOCAL INSTANCE Sequences

\* the bilinear form through the four corners of the cell [x1,x2] x [y1,y2]
\*   z11 = f(x1,y1), z12 = f(x1,y2), z21 = f(x2,y1), z22 = f(x2,y2)
Blend(x1, x2, y1, y2, z11, z12, z21, z22, qx, qy) ==
    LET tx == Tau(x1, x2, qx)
        ty == Tau(y1, y2, qy)
        ux == QSub(Q1, tx)
        uy == QSub(Q1, ty)
    IN  QAdd(QAdd(QMul(z11, QMul(ux, uy)), QMul(z21, QMul(tx, uy))),
             QAdd(QMul(z12, QMul(ux, ty)), QMul(z22, QMul(tx, ty))))

\* z: function i -> j -> value of one lane
Bil(x, y, z, qx, qy) ==
    LET i == Bracket(x, qx)
        j == Bracket(y, qy)
    IN  Blend(x[i], x[i + 1], y[j], y[j + 1], z[i][j], z[i][j + 1], z[i + 1][j], z[i + 1][j + 1], qx, qy)

\* Tol (DESIGN 2.4): 24 * eps * (1+|tx|)(1+|ty|) * max|z|
TolBil(el, zs, ref, tx, ty) ==
    QMul(QMul(QI(24), Eps(el)),
         QMul(QMul(QAdd(Q1, QAbs(tx)), QAdd(Q1, QAbs(ty))), QMax(QMaxAbsSeq(zs), QAbs(ref))))
=============================================================================

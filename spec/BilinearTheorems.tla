-------------------------- MODULE BilinearTheorems --------------------------
(***************************************************************************)
(* Theorems of the bilinear reference on bounded grids (C04 "consequently"  *)
(* clauses, C06 continuity, C16 reproduction, C20 locality, C15 units).     *)
(***************************************************************************)
EXTENDS Naturals, Integers, Sequences, FiniteSets, TLC, BilinearRef

CONSTANTS XAxes, YAxes, Seeds      \* sets of integer axes (sequences) and data seeds

VARIABLES ax, ay, seed
vars == <<ax, ay, seed>>
Init == ax \in XAxes /\ ay \in YAxes /\ seed \in Seeds
Next == UNCHANGED vars
Spec == Init /\ [][Next]_vars

X == [i \in 1..Len(ax) |-> QI(ax[i])]
Y == [i \in 1..Len(ay) |-> QI(ay[i])]
NX == Len(ax)
NY == Len(ay)
\* pseudo-random small integer data (non-affine, non-symmetric)
Z == [i \in 1..NX |-> [j \in 1..NY |-> QI(((i * 7 + j * 13 + seed * 5 + i * j * 3) % 11) - 5)]]
Half(k) == QDiv(QI(k), Q2)
QX == {Half(k) : k \in (2 * ax[1] - 3)..(2 * ax[NX] + 3)}
QY == {Half(k) : k \in (2 * ay[1] - 3)..(2 * ay[NY] + 3)}

\* C04: grid nodes are reproduced
NodesReproduced == \A i \in 1..NX, j \in 1..NY : Bil(X, Y, Z, X[i], Y[j]) = Z[i][j]
\* C04: along a grid line the result is the 1-D linear interpolation of that line
GridLineIsLinear ==
    /\ \A i \in 1..NX : \A qy \in QY : Bil(X, Y, Z, X[i], qy) = Lin(Y, Z[i], qy)
    /\ \A j \in 1..NY : \A qx \in QX : Bil(X, Y, Z, qx, Y[j]) = Lin(X, [i \in 1..NX |-> Z[i][j]], qx)
\* C04: transposing the data and swapping axes and query coordinates gives the same value
TransposeSymmetric ==
    LET ZT == [j \in 1..NY |-> [i \in 1..NX |-> Z[i][j]]]
    IN  \A qx \in QX, qy \in QY : Bil(X, Y, Z, qx, qy) = Bil(Y, X, ZT, qy, qx)
\* the blend equals the three nested linear interpolations the implementation performs
NestedLinear ==
    \A qx \in QX, qy \in QY :
        LET i == Bracket(X, qx) j == Bracket(Y, qy)
            z1 == Line(X[i], Z[i][j], X[i + 1], Z[i + 1][j], qx)
            z2 == Line(X[i], Z[i][j + 1], X[i + 1], Z[i + 1][j + 1], qx)
        IN  Bil(X, Y, Z, qx, qy) = Line(Y[j], z1, Y[j + 1], z2, qy)
\* C16: bilinear functions a + bx + cy + dxy are reproduced everywhere (in range and extrapolated)
BilinearReproduced ==
    LET f(x, y) == QAdd(QAdd(QI(seed), QMul(Q2, x)), QAdd(QMul(QI(-3), y), QMul(QDiv(Q1, Q2), QMul(x, y))))
        F == [i \in 1..NX |-> [j \in 1..NY |-> f(X[i], Y[j])]]
    IN  \A qx \in QX, qy \in QY : Bil(X, Y, F, qx, qy) = f(qx, qy)
\* C20: only the four corners of the cell matter
Local ==
    \A qx \in QX, qy \in QY :
        LET i == Bracket(X, qx) j == Bracket(Y, qy)
            ZP == [a \in 1..NX |-> [b \in 1..NY |-> IF a \in {i, i + 1} /\ b \in {j, j + 1} THEN Z[a][b] ELSE "NaN"]]
        IN  Bil(X, Y, ZP, qx, qy) = Bil(X, Y, Z, qx, qy)
\* C15: independent unit changes for x and y, data factor
Units ==
    \A qx \in QX, qy \in QY :
        LET cx == Q2 sx == QI(-3) cy == QDiv(Q1, Q2) sy == QI(5) d == QI(-4)
            X2 == [i \in 1..NX |-> QAdd(QMul(cx, X[i]), sx)]
            Y2 == [j \in 1..NY |-> QAdd(QMul(cy, Y[j]), sy)]
            Z2 == [i \in 1..NX |-> [j \in 1..NY |-> QMul(d, Z[i][j])]]
        IN  Bil(X2, Y2, Z2, QAdd(QMul(cx, qx), sx), QAdd(QMul(cy, qy), sy)) = QMul(d, Bil(X, Y, Z, qx, qy))
=============================================================================

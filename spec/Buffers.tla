------------------------------- MODULE Buffers -------------------------------
(***************************************************************************)
(* The buffer / shape plumbing of interp_array_into (C09, C13, C14):        *)
(* memory is a flat sequence of cells, a caller's buffer is a window        *)
(* (offset, shape, strides) into it.  Both code paths are transcribed on    *)
(* index tuples:                                                            *)
(*   fast path    (statically 1-d query): Zip over axis 0 of the buffer,    *)
(*                 the strategy's Zip checks the lane shape;                *)
(*   general path (any other query): whole-shape assertion, then per query  *)
(*                 index the leading axes are indexed away.                 *)
(* With AsFound = TRUE the general path is the original one (sub-view       *)
(* sliced to length 1 on the query axes and RESHAPED to the lane shape:     *)
(* size-only check, needs a C-contiguous sub-view) - a negative self-test   *)
(* that reproduces defects D3 / D4 at design level.                         *)
(***************************************************************************)
EXTENDS Naturals, Integers, Sequences, FiniteSets, TLC, Arrays

CONSTANTS AsFound, MaxAxis

Layouts == {"C", "F", "Strided", "Rev"}

\* small shapes
ShapesUpTo(r) == UNION {[1..k -> 0..MaxAxis] : k \in 0..r}
QShapes == ShapesUpTo(2)
Trailings == {s \in ShapesUpTo(2) : \A i \in 1..Len(s) : s[i] >= 1} \cup {<<0>>}

Exp(c) == c.qshape \o c.trailing

\* buffer shapes: the required one and its defects
Defects(e) ==
    {e}
    \cup {[e EXCEPT ![i] = @ + 1] : i \in 1..Len(e)}
    \cup {[e EXCEPT ![i] = @ - 1] : i \in {j \in 1..Len(e) : e[j] >= 1}}
    \cup {[e EXCEPT ![i] = e[j], ![j] = e[i]] : i, j \in 1..Len(e)}
    \cup {e \o <<1>>} \cup (IF Len(e) >= 1 THEN {SubSeq(e, 1, Len(e) - 1)} ELSE {})
    \cup (IF Len(e) >= 2 THEN {SubSeq(e, 1, Len(e) - 2) \o <<e[Len(e) - 1] * e[Len(e)]>>} ELSE {})

Cases == {c \in [fast : BOOLEAN, qshape : QShapes, trailing : Trailings, lay : Layouts] : c.fast => Len(c.qshape) = 1}

\* ---- memory layout of a buffer of shape s ------------------------------------
\* strides in cells and offset of the logical first element; memory size
ColMajorStrides(s) == [i \in 1..Len(s) |-> Prod(SubSeq(s, 1, i - 1))]
StridesOf(s, lay) ==
    CASE lay = "C" -> RowMajorStrides(s)
      [] lay = "F" -> ColMajorStrides(s)
      [] lay = "Strided" -> [i \in 1..Len(s) |-> 2 * RowMajorStrides([j \in 1..Len(s) |-> 2 * s[j]])[i]]
      [] lay = "Rev" -> [i \in 1..Len(s) |-> 0 - RowMajorStrides(s)[i]]
OffsetOf(s, lay) ==
    CASE lay = "Rev" -> IF Prod(s) = 0 THEN 0 ELSE Prod(s) - 1
      [] OTHER -> 0
MemSize(s, lay) == IF lay = "Strided" THEN Prod([j \in 1..Len(s) |-> 2 * s[j]]) ELSE Prod(s)
CellAt(s, lay, idx) == OffsetOf(s, lay) + Dot(idx, StridesOf(s, lay))          \* 0-based cell of a 0-based index tuple
AllIdx(s) == {Unflatten(k, s) : k \in 0..(Prod(s) - 1)}
Window(s, lay) == {CellAt(s, lay, idx) : idx \in AllIdx(s)}

\* C-contiguity of a (sub-)view in ndarray's sense: axes of length 1 are ignored, empty arrays are contiguous
IsCContig(shape, strides) ==
    Prod(shape) = 0 \/
    \A i \in 1..Len(shape) : shape[i] = 1 \/ strides[i] = Prod([j \in 1..Len(shape) |-> IF j > i THEN shape[j] ELSE 1])

VARIABLES c, bshape, pc, k, writes, out
vars == <<c, bshape, pc, k, writes, out>>
\* writes: set of <<cell, query index (flat), lane index (flat)>>

Init == /\ c \in Cases
        /\ bshape \in Defects(Exp(c))
        /\ pc = "enter" /\ k = 0 /\ writes = {} /\ out = "-"

NQ == Prod(c.qshape)
LaneShape == c.trailing
RQ == Len(c.qshape)

\* ---- fast path: Zip::from(xs).and(buffer.axis_iter_mut(Axis(0))) --------------------
\* (the static types force rank(buffer) = 1 + rank(lane) unless the data dimension is dynamic;
\*  a wrong rank is then caught by the strategy's Zip like any other lane-shape mismatch)
FastEnter ==
    /\ pc = "enter" /\ c.fast
    /\ IF Len(bshape) = 0 \/ bshape[1] # NQ
       THEN pc' = "done" /\ out' = "Panic"                \* Zip: shape mismatch on axis 0 (a 0-d buffer has no axis 0)
       ELSE pc' = "fastloop" /\ out' = out
    /\ UNCHANGED <<c, bshape, k, writes>>
FastStep ==
    /\ pc = "fastloop" /\ k < NQ
    /\ LET row == Drop(bshape, 1)
       IN  IF row # LaneShape
           THEN pc' = "done" /\ out' = "Panic" /\ UNCHANGED <<k, writes>>          \* the strategy's Zip over the target
           ELSE /\ writes' = writes \cup {<<CellAt(bshape, c.lay, <<k>> \o Unflatten(l, row)), k, l>> : l \in 0..(Prod(row) - 1)}
                /\ k' = k + 1 /\ UNCHANGED <<pc, out>>
    /\ UNCHANGED <<c, bshape>>
FastDone == pc = "fastloop" /\ k >= NQ /\ pc' = "done" /\ out' = "Ok" /\ UNCHANGED <<c, bshape, k, writes>>

\* ---- general path ----------------------------------------------------------------
GenEnter ==
    /\ pc = "enter" /\ ~c.fast
    /\ IF ~AsFound /\ bshape # Exp(c)
       THEN pc' = "done" /\ out' = "Panic"                \* assert!(buffer.raw_dim() == expect)
       ELSE pc' = "genloop" /\ out' = out
    /\ UNCHANGED <<c, bshape, k, writes>>
GenStep ==
    /\ pc = "genloop" /\ k < NQ
    /\ LET qidx == Unflatten(k, c.qshape)
       IN  IF AsFound THEN
               \* slice_each_axis_mut(idx..idx+1 on the first RQ axes), then into_shape_with_order(lane shape)
               IF RQ > Len(bshape) \/ \E i \in 1..RQ : qidx[i] >= bshape[i]
               THEN pc' = "done" /\ out' = "Panic" /\ UNCHANGED <<k, writes>>       \* slice out of bounds
               ELSE LET sub == [i \in 1..Len(bshape) |-> IF i <= RQ THEN 1 ELSE bshape[i]]
                        st == StridesOf(bshape, c.lay)
                    IN  IF Prod(sub) # Prod(LaneShape) \/ ~IsCContig(sub, st)
                        THEN pc' = "done" /\ out' = "Panic" /\ UNCHANGED <<k, writes>>
                        ELSE \* the reshaped view enumerates the sub-view in C order
                             /\ writes' = writes \cup
                                   {<<CellAt(bshape, c.lay, [i \in 1..Len(bshape) |-> IF i <= RQ THEN qidx[i] ELSE Unflatten(l, sub)[i]]), k, l>> :
                                        l \in 0..(Prod(sub) - 1)}
                             /\ k' = k + 1 /\ UNCHANGED <<pc, out>>
           ELSE \* index_axis_move on the leading axes, into_dimensionality::<lane dim>
               /\ writes' = writes \cup {<<CellAt(bshape, c.lay, qidx \o Unflatten(l, LaneShape)), k, l>> : l \in 0..(Prod(LaneShape) - 1)}
               /\ k' = k + 1 /\ UNCHANGED <<pc, out>>
    /\ UNCHANGED <<c, bshape>>
GenDone == pc = "genloop" /\ k >= NQ /\ pc' = "done" /\ out' = "Ok" /\ UNCHANGED <<c, bshape, k, writes>>

Next == FastEnter \/ FastStep \/ FastDone \/ GenEnter \/ GenStep \/ GenDone
Spec == Init /\ [][Next]_vars

----------------------------------------------------------------------------
Done == pc = "done"
Good == bshape = Exp(c)
\* C14: a wrongly shaped buffer never gives Ok
\* (known gap, modelled faithfully: on the fast path an EMPTY query never reaches the strategy's lane check)
WrongShapeRejected == Done /\ ~Good /\ ~(c.fast /\ NQ = 0) => out # "Ok"
\* C13: a correctly shaped buffer is accepted whatever its layout
RightShapeAccepted == Done /\ Good => out = "Ok"
\* C09 / C14: on Ok with the right shape, the element for (query k, lane l) lands in cell (k ++ l); every window cell is
\* written exactly once and nothing outside the window is written
WritesExact ==
    Done /\ out = "Ok" /\ Good =>
        /\ {w[1] : w \in writes} = Window(bshape, c.lay)
        /\ Cardinality(writes) = Cardinality(Window(bshape, c.lay))
        /\ \A w \in writes : w[1] = CellAt(bshape, c.lay, Unflatten(w[2], c.qshape) \o Unflatten(w[3], LaneShape))
NothingOutside == \A w \in writes : w[1] \in 0..(MemSize(bshape, c.lay) - 1) /\ w[1] \in Window(bshape, c.lay)
=============================================================================

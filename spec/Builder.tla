------------------------------- MODULE Builder -------------------------------
(***************************************************************************)
(* The validation chains of Interp1DBuilder / Interp2DBuilder (constructor, *)
(* build(), strategy build) transcribed as sequential steps, next to the    *)
(* declarative contract Valid1 / ViolatedKinds1 / Valid2 / ViolatedKinds2   *)
(* of NdContract (C10).                                                     *)
(*                                                                          *)
(* A row of the decision table is abstract (rank, lengths, order pattern,   *)
(* boundary-array defect, periodic ends); Concretise turns it into the same *)
(* concrete input record the trace specification builds from a recorded     *)
(* build event, so that model and trace validation share ONE contract.      *)
(***************************************************************************)
EXTENDS Naturals, Integers, Sequences, FiniteSets, TLC, NdContract

CONSTANTS ConstructorIndexes   \* TRUE: constructors index shape()[0] / [1] as originally found (negative self-test)

Strategies == {[k |-> "Linear", min |-> 2, bc |-> "-"], [k |-> "Spline", min |-> 3, bc |-> "NotAKnot"],
               [k |-> "Spline", min |-> 3, bc |-> "Periodic"], [k |-> "Spline", min |-> 3, bc |-> "Individual"],
               [k |-> "Custom", min |-> 0, bc |-> "-"], [k |-> "Custom", min |-> 4, bc |-> "-"]}
Orders == {"inc", "tie", "swap", "nan", "dec"}
BoundsDefects == {"ok", "leading", "trailing", "rank"}
Ends == {"equal", "unequal"}

Rows1 == {r \in [strat : Strategies, rank : 0..2, n : 0..6, xdef : BOOLEAN, dx : {-1, 0, 1}, order : Orders,
                 bounds : BoundsDefects, ends : Ends, fb : {0, 1}] :
            /\ r.n <= r.strat.min + 2
            /\ (r.rank = 0 => r.n = 0)
            /\ (r.xdef => r.dx = 0 /\ r.order = "inc")
            /\ (r.strat.bc # "Individual" => r.bounds = "ok")
            /\ (r.bounds = "trailing" => r.rank = 2)
            /\ (r.strat.bc # "Periodic" => r.ends = "equal")
            /\ (r.strat.k # "Custom" => r.fb = 0)}

\* ---- concretisation --------------------------------------------------------
AxisOf(len, order) ==
    LET base == [i \in 1..len |-> QI(2 * i - 1)]
    IN  CASE order = "inc" -> base
          [] order = "tie" -> IF len >= 2 THEN [base EXCEPT ![len] = base[len - 1]] ELSE base
          [] order = "swap" -> IF len >= 2 THEN [base EXCEPT ![1] = base[2], ![2] = base[1]] ELSE base
          [] order = "nan" -> IF len >= 1 THEN [base EXCEPT ![(len + 1) \div 2] = "NaN"] ELSE base
          [] order = "dec" -> [i \in 1..len |-> QI(2 * (len - i) + 1)]

Trail(r) == IF r.rank = 2 THEN <<2>> ELSE <<>>
DShape(r) == IF r.rank = 0 THEN <<>> ELSE <<r.n>> \o Trail(r)
XLen(r) == IF r.xdef THEN r.n ELSE IF r.n + r.dx < 0 THEN 0 ELSE r.n + r.dx
BoundsShape(r) ==
    CASE r.bounds = "ok" -> <<1>> \o Trail(r)
      [] r.bounds = "leading" -> <<2>> \o Trail(r)
      [] r.bounds = "trailing" -> <<1, 3>>
      [] r.bounds = "rank" -> <<1>> \o Trail(r) \o <<1>>
\* data payloads (element type i32): row i holds i in every lane, except that with unequal periodic ends the
\* last lane of the last row differs
DataOf(r) ==
    LET L == Lanes(DShape(r), 1)
    IN  [k \in 1..(r.n * L) |->
            LET i == ((k - 1) \div L) + 1  j == ((k - 1) % L) + 1
            IN  IF i = r.n /\ r.n >= 2 THEN (IF r.ends = "unequal" /\ j = L THEN "77" ELSE "1") ELSE ToString(i)]

Concretise(r) ==
    [rank |-> r.rank, n |-> r.n, x |-> AxisOf(XLen(r), IF r.xdef THEN "inc" ELSE r.order),
     st |-> [k |-> r.strat.k, min |-> r.strat.min, bc |-> r.strat.bc, bs |-> BoundsShape(r), fb |-> r.fb, ex |-> 0],
     dshape |-> DShape(r), el |-> "i32", dv |-> DataOf(r)]

\* ---- the chain, step by step ------------------------------------------------
VARIABLES row, pc, out
vars == <<row, pc, out>>

Init == row \in Rows1 /\ pc = "new" /\ out = "-"

In == Concretise(row)

\* Interp1DBuilder::new: default axis from the length of axis 0
New ==
    /\ pc = "new"
    /\ IF ConstructorIndexes /\ row.rank = 0 THEN pc' = "done" /\ out' = "Panic"     \* data.shape()[0] on 0-d data
       ELSE pc' = "ndim" /\ out' = out
    /\ UNCHANGED row
\* build(): `if data.ndim() < 1`
CheckNdim == pc = "ndim" /\ (IF In.rank < 1 THEN pc' = "done" /\ out' = "Err:ShapeError" ELSE pc' = "min" /\ out' = out) /\ UNCHANGED row
\* `if data.shape()[0] < MINIMUM_DATA_LENGHT`
CheckMin == pc = "min" /\ (IF In.n < MinLen(In.st) THEN pc' = "done" /\ out' = "Err:NotEnoughData" ELSE pc' = "mono" /\ out' = out) /\ UNCHANGED row
\* `if !matches!(x.monotonic_prop(), Rising { strict: true })`
CheckMono == pc = "mono" /\ (IF ~StrictRising(In.x) THEN pc' = "done" /\ out' = "Err:Monotonic" ELSE pc' = "len" /\ out' = out) /\ UNCHANGED row
\* `if x.len() != data.shape()[0]`
CheckLen == pc = "len" /\ (IF Len(In.x) # In.n THEN pc' = "done" /\ out' = "Err:ShapeError" ELSE pc' = "strat" /\ out' = out) /\ UNCHANGED row
\* strategy.build(&x, &data): Linear never fails; the recording strategy fails on demand;
\* CubicSpline: boundary-array shape, then (periodic) equal ends
StratBuild ==
    /\ pc = "strat"
    /\ pc' = "done"
    /\ out' = CASE In.st.k = "Linear" -> "Ok"
                [] In.st.k = "Custom" -> (IF In.st.fb = 1 THEN "Err:ValueError" ELSE "Ok")
                [] In.st.k = "Spline" ->
                     IF In.st.bc = "Individual" /\ In.st.bs # <<1>> \o Drop(In.dshape, 1) THEN "Err:ShapeError"
                     ELSE IF In.st.bc = "Periodic" /\ ~PeriodicEndsEqual(In) THEN "Err:ValueError"
                     ELSE "Ok"
    /\ UNCHANGED row

Next == New \/ CheckNdim \/ CheckMin \/ CheckMono \/ CheckLen \/ StratBuild
Spec == Init /\ [][Next]_vars

\* ---- C10 -------------------------------------------------------------------
NeverPanics == out # "Panic"
AcceptsExactlyValid == pc = "done" => ((out = "Ok") <=> Valid1(In))
ErrorKindIsViolated == pc = "done" /\ out \notin {"Ok", "Panic"} => ErrKind(out) \in ViolatedKinds1(In)
\* the strategy is reached only with validated inputs (C18)
StrategySeesValidInput == pc = "strat" => In.rank >= 1 /\ In.n >= MinLen(In.st) /\ StrictRising(In.x) /\ Len(In.x) = In.n
=============================================================================

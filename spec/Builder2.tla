------------------------------ MODULE Builder2 ------------------------------
(***************************************************************************)
(* Interp2DBuilder: constructor + build() validation chain, step by step,   *)
(* against Valid2 / ViolatedKinds2 of NdContract (C10, x and y              *)
(* independently, every combination of simultaneous violations).            *)
(***************************************************************************)
EXTENDS Naturals, Integers, Sequences, FiniteSets, TLC, NdContract

CONSTANTS ConstructorIndexes

Strategies == {[k |-> "Bilinear", min |-> 2], [k |-> "Custom", min |-> 0], [k |-> "Custom", min |-> 3]}
Orders == {"inc", "tie", "nan", "dec"}
AxisCfg == [def : BOOLEAN, d : {-1, 0, 1}, order : Orders]
AxisOk(a) == a.def => a.d = 0 /\ a.order = "inc"

Rows2 == {r \in [strat : Strategies, rank : 0..3, nx : 0..4, ny : 0..4, ax : AxisCfg, ay : AxisCfg, fb : {0, 1}] :
            /\ r.nx <= r.strat.min + 1 /\ r.ny <= r.strat.min + 1
            /\ (r.rank = 0 => r.nx = 0 /\ r.ny = 0)
            /\ (r.rank = 1 => r.ny = 0)
            /\ AxisOk(r.ax) /\ AxisOk(r.ay)
            /\ (r.strat.k # "Custom" => r.fb = 0)}

AxisOf(len, order) ==
    LET base == [i \in 1..len |-> QI(2 * i - 1)]
    IN  CASE order = "inc" -> base
          [] order = "tie" -> IF len >= 2 THEN [base EXCEPT ![len] = base[len - 1]] ELSE base
          [] order = "nan" -> IF len >= 1 THEN [base EXCEPT ![1] = "NaN"] ELSE base
          [] order = "dec" -> [i \in 1..len |-> QI(2 * (len - i) + 1)]
ALen(n, a) == IF a.def THEN n ELSE IF n + a.d < 0 THEN 0 ELSE n + a.d

Concretise(r) ==
    [rank |-> r.rank, nx |-> r.nx, ny |-> r.ny,
     x |-> AxisOf(ALen(r.nx, r.ax), r.ax.order), y |-> AxisOf(ALen(r.ny, r.ay), r.ay.order),
     st |-> [k |-> r.strat.k, min |-> r.strat.min, fb |-> r.fb, ex |-> 0]]

VARIABLES row, pc, out
vars == <<row, pc, out>>
Init == row \in Rows2 /\ pc = "new" /\ out = "-"
In == Concretise(row)

New == /\ pc = "new"
       /\ IF ConstructorIndexes /\ row.rank < 2 THEN pc' = "done" /\ out' = "Panic" ELSE pc' = "ndim" /\ out' = out
       /\ UNCHANGED row
Step(here, cond, err, next) ==
    pc = here /\ (IF cond THEN pc' = "done" /\ out' = err ELSE pc' = next /\ out' = out) /\ UNCHANGED row
CheckNdim == Step("ndim", In.rank < 2, "Err:ShapeError", "minx")
CheckMinX == Step("minx", In.nx < MinLen(In.st), "Err:NotEnoughData", "miny")
CheckMinY == Step("miny", In.ny < MinLen(In.st), "Err:NotEnoughData", "lenx")
CheckLenX == Step("lenx", Len(In.x) # In.nx, "Err:ShapeError", "leny")
CheckLenY == Step("leny", Len(In.y) # In.ny, "Err:ShapeError", "monox")
CheckMonoX == Step("monox", ~StrictRising(In.x), "Err:Monotonic", "monoy")
CheckMonoY == Step("monoy", ~StrictRising(In.y), "Err:Monotonic", "strat")
StratBuild == pc = "strat" /\ pc' = "done" /\ out' = (IF In.st.k = "Custom" /\ In.st.fb = 1 THEN "Err:ValueError" ELSE "Ok") /\ UNCHANGED row

Next == New \/ CheckNdim \/ CheckMinX \/ CheckMinY \/ CheckLenX \/ CheckLenY \/ CheckMonoX \/ CheckMonoY \/ StratBuild
Spec == Init /\ [][Next]_vars

NeverPanics == out # "Panic"
AcceptsExactlyValid == pc = "done" => ((out = "Ok") <=> Valid2(In))
ErrorKindIsViolated == pc = "done" /\ out \notin {"Ok", "Panic"} => ErrKind(out) \in ViolatedKinds2(In)
StrategySeesValidInput == pc = "strat" => In.rank >= 2 /\ StrictRising(In.x) /\ StrictRising(In.y) /\ Len(In.x) = In.nx /\ Len(In.y) = In.ny
=============================================================================

------------------------------ MODULE DimTypes ------------------------------
(***************************************************************************)
(* The type algebra behind the two (1-D) / three (2-D) `cast_unchecked`     *)
(* calls of the rank-1 fast path (C19): ndarray's dimension types, their    *)
(* `Smaller` and `DimAdd` tables, the `TypeId` guard, and the claim that    *)
(* every cast that is executed relabels a type with itself - for every      *)
(* instantiation of data dimension type, query dimension type, storage      *)
(* kind and element type.                                                   *)
(***************************************************************************)
EXTENDS Naturals, Sequences, FiniteSets, TLC

CONSTANT GuardAlsoDyn    \* FALSE: guard is `Dq == Ix1` as implemented; TRUE: negative self-test (guard widened to IxDyn)

Static == {"Ix0", "Ix1", "Ix2", "Ix3", "Ix4", "Ix5", "Ix6"}
Dim == Static \cup {"IxDyn"}
RankOf(d) == CASE d = "Ix0" -> 0 [] d = "Ix1" -> 1 [] d = "Ix2" -> 2 [] d = "Ix3" -> 3 [] d = "Ix4" -> 4 [] d = "Ix5" -> 5 [] d = "Ix6" -> 6
IxOf(n) == CASE n = 0 -> "Ix0" [] n = 1 -> "Ix1" [] n = 2 -> "Ix2" [] n = 3 -> "Ix3" [] n = 4 -> "Ix4" [] n = 5 -> "Ix5" [] n = 6 -> "Ix6"

\* ndarray: <D as Dimension>::Smaller  (Ix0::Smaller = Ix0, IxDyn::Smaller = IxDyn)
Smaller(d) == IF d = "IxDyn" THEN "IxDyn" ELSE IF d = "Ix0" THEN "Ix0" ELSE IxOf(RankOf(d) - 1)
\* ndarray: <A as DimAdd<B>>::Output  (src/dimension/ops.rs): Ix0 + B = B; anything dynamic or a static sum above 6 is IxDyn
DimAdd(a, b) ==
    IF a = "Ix0" THEN b
    ELSE IF a = "IxDyn" \/ b = "IxDyn" THEN "IxDyn"
    ELSE IF RankOf(a) + RankOf(b) <= 6 THEN IxOf(RankOf(a) + RankOf(b)) ELSE "IxDyn"

Storage == {"OwnedRepr", "ViewRepr", "OwnedArcRepr"}
Elem == {"f64", "f32", "i32", "i64"}
\* a type: array-like constructor, storage / element, dimension
ArrRef(s, e, d) == <<"&ArrayBase", s, e, d>>
ViewMut(e, d) == <<"ArrayViewMut", e, d>>

DataDims1 == Dim \ {"Ix0"}                 \* Interp1D: D: RemoveAxis, at least one axis
DataDims2 == Dim \ {"Ix0", "Ix1"}          \* Interp2D: D::Smaller: RemoveAxis
QueryDims == {"Ix0", "Ix1", "Ix2", "Ix3", "Ix4", "IxDyn"}

VARIABLES inst, casts, pc
vars == <<inst, casts, pc>>

Inst == [two : BOOLEAN, d : Dim, dq : QueryDims, sq : Storage, e : Elem]
Init == /\ inst \in {i \in Inst : i.d \in (IF i.two THEN DataDims2 ELSE DataDims1)}
        /\ casts = <<>> /\ pc = "guard"

Guard(dq) == dq = "Ix1" \/ (GuardAlsoDyn /\ dq = "IxDyn")

\* interp_array_into: `if TypeId::of::<Dq>() == TypeId::of::<Ix1>()` then the casts, else the general path
Enter ==
    /\ pc = "guard"
    /\ IF Guard(inst.dq)
       THEN LET lane == IF inst.two THEN Smaller(Smaller(inst.d)) ELSE Smaller(inst.d)
                target == IF inst.two THEN Smaller(inst.d) ELSE inst.d
                cq == <<ArrRef(inst.sq, inst.e, inst.dq), ArrRef(inst.sq, inst.e, "Ix1")>>
                cb == <<ViewMut(inst.e, DimAdd(inst.dq, lane)), ViewMut(inst.e, target)>>
            IN  casts' = (IF inst.two THEN <<cq, cq, cb>> ELSE <<cq, cb>>) /\ pc' = "fast"
       ELSE casts' = <<>> /\ pc' = "general"
    /\ UNCHANGED inst
Next == Enter
Spec == Init /\ [][Next]_vars

\* C19: every executed cast has identical source and destination type
CastSafe == \A i \in 1..Len(casts) : casts[i][1] = casts[i][2]
\* the fast path is taken exactly for statically one-dimensional queries
FastIffIx1 == pc = "fast" <=> (pc # "guard" /\ inst.dq = "Ix1")
\* what the trace specification expects to see: 2 casts (1-D) / 3 casts (2-D) on the fast path, none otherwise
CastCount == pc # "guard" => Len(casts) = (IF pc = "fast" THEN (IF inst.two THEN 3 ELSE 2) ELSE 0)
\* the result dimension type of interp_array: query ++ lane dims (static up to 6, dynamic beyond or with any dynamic operand)
ResultDim(i) == DimAdd(i.dq, IF i.two THEN Smaller(Smaller(i.d)) ELSE Smaller(i.d))
ResultDimSound ==
    LET r == ResultDim(inst) lane == IF inst.two THEN Smaller(Smaller(inst.d)) ELSE Smaller(inst.d)
    IN  r # "IxDyn" => inst.dq # "IxDyn" /\ lane # "IxDyn" /\ RankOf(r) = RankOf(inst.dq) + RankOf(lane)
=============================================================================

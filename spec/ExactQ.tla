------------------------------- MODULE ExactQ -------------------------------
(***************************************************************************)
(* Exact rational arithmetic for TLC.                                      *)
(*                                                                         *)
(* A rational is a string in canonical form "n" or "n/d" (d > 1, reduced), *)
(* so that TLA+ equality coincides with numeric equality.  The operators   *)
(* below marked PRIMITIVE are evaluated by the Java module override        *)
(* verifx.ExactQ (BigInteger); their TLA+ bodies are place holders.  The   *)
(* override is validated against the pure TLA+ reference ExactQRef by      *)
(* MC_ExactQ.  Everything that is not a scalar primitive is defined here   *)
(* and in the modules that extend this one, in TLA+.                       *)
(***************************************************************************)
LOCAL INSTANCE Naturals
LOCAL INSTANCE Integers
LOCAL INSTANCE Sequences

\* ---- PRIMITIVES (Java override) -------------------------------------------
QI(n)            == CHOOSE s \in STRING : TRUE   \* integer n as rational
QAdd(a, b)       == CHOOSE s \in STRING : TRUE
QSub(a, b)       == CHOOSE s \in STRING : TRUE
QMul(a, b)       == CHOOSE s \in STRING : TRUE
QDiv(a, b)       == CHOOSE s \in STRING : TRUE   \* b # 0
QNeg(a)          == CHOOSE s \in STRING : TRUE
QAbs(a)          == CHOOSE s \in STRING : TRUE
QLt(a, b)        == CHOOSE s \in BOOLEAN : TRUE
QLe(a, b)        == CHOOSE s \in BOOLEAN : TRUE
QSign(a)         == CHOOSE s \in {-1, 0, 1} : TRUE
QFloor(a)        == CHOOSE s \in STRING : TRUE   \* largest integer <= a, as rational
QPow2(k)         == CHOOSE s \in STRING : TRUE   \* 2^k, k any integer
QToInt(a)        == CHOOSE s \in Int : TRUE      \* integer rational -> Int
QDecode(elem, p) == CHOOSE s \in STRING : TRUE   \* logged payload -> "NaN" | "+Inf" | "-Inf" | rational
QSignBit(elem, p) == CHOOSE s \in BOOLEAN : TRUE \* sign bit of a logged number
QRound(elem, a)  == CHOOSE s \in STRING : TRUE   \* nearest representable payload (floats: ties-to-even; ints: truncation)

\* ---- derived, pure TLA+ -----------------------------------------------------
Q0 == "0"
Q1 == "1"
Q2 == "2"
Q3 == "3"
QMax(a, b) == IF QLt(a, b) THEN b ELSE a
QMin(a, b) == IF QLt(b, a) THEN b ELSE a
QGe(a, b) == QLe(b, a)
QGt(a, b) == QLt(b, a)
QSq(a) == QMul(a, a)
QCube(a) == QMul(a, QMul(a, a))

RECURSIVE QSumSeq(_)
QSumSeq(s) == IF s = <<>> THEN Q0 ELSE QAdd(Head(s), QSumSeq(Tail(s)))

RECURSIVE QMaxAbsSeq(_)
QMaxAbsSeq(s) == IF s = <<>> THEN Q0 ELSE QMax(QAbs(Head(s)), QMaxAbsSeq(Tail(s)))

\* machine epsilons (unit in the last place of 1.0)
Eps(elem) == IF elem = "f32" THEN QPow2(-23) ELSE QPow2(-52)
=============================================================================

------------------------------ MODULE ExactQRef ------------------------------
(***************************************************************************)
(* Pure TLA+ reference implementation of rationals as pairs <<n, d>> of     *)
(* small integers, used only by MC_ExactQ to validate the Java override of  *)
(* module ExactQ (the trusted base of the exact oracle).                    *)
(***************************************************************************)
EXTENDS Integers

RECURSIVE Gcd(_, _)
Gcd(a, b) == IF b = 0 THEN a ELSE Gcd(b, a % b)
AbsI(a) == IF a < 0 THEN -a ELSE a
Norm(p) == LET n == p[1] d == p[2]
               s == IF d < 0 THEN -1 ELSE 1
               g == Gcd(AbsI(n), AbsI(d))
           IN  <<(s * n) \div g, (s * d) \div g>>
RAdd(p, q) == Norm(<<p[1] * q[2] + q[1] * p[2], p[2] * q[2]>>)
RSub(p, q) == Norm(<<p[1] * q[2] - q[1] * p[2], p[2] * q[2]>>)
RMul(p, q) == Norm(<<p[1] * q[1], p[2] * q[2]>>)
RDiv(p, q) == Norm(<<p[1] * q[2], p[2] * q[1]>>)
RLt(p, q) == p[1] * q[2] < q[1] * p[2]
RLe(p, q) == p[1] * q[2] <= q[1] * p[2]
RFloor(p) == p[1] \div p[2]     \* TLA+ \div rounds toward -infinity for positive divisor
=============================================================================

SPECIFICATION Spec
CONSTANTS
  AsFound = FALSE
  MaxAxis = 2
INVARIANTS Emit WrongShapeRejected RightShapeAccepted
CHECK_DEADLOCK FALSE

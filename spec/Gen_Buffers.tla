----------------------------- MODULE Gen_Buffers -----------------------------
(***************************************************************************)
(* Spec -> impl for C09 / C13 / C14: every initial state of the Buffers      *)
(* model (query shape, lane shape, fast / general path, buffer layout,       *)
(* buffer shape incl. every defect) is printed as a two-event script: a      *)
(* build of a Linear interpolator over data with that lane shape and an      *)
(* interp_array_into call with that query shape, buffer shape and layout.    *)
(* The harness' script interpreter performs them on the real crate; the      *)
(* trace specification judges outcome, window contents and untouched cells.  *)
(***************************************************************************)
EXTENDS Buffers, Json, ExactQ

H(v) == QRound("f64", v)
N == 3
DataShape == <<N>> \o c.trailing
DataVals == [ii \in 1..Prod(DataShape) |-> H(QI(((ii * 7) % 11) - 4))]
\* query values inside [0, 2]
QVals == [ii \in 1..Prod(c.qshape) |-> H(QDiv(QI((ii * 3) % 9), QI(4)))]
QTag == IF c.fast THEN "Ix1"
        ELSE IF Len(c.qshape) = 0 THEN "Ix0" ELSE IF Len(c.qshape) = 1 THEN "IxDyn" ELSE "Ix2"
\* static result rank: a buffer of another rank is not expressible in the type system
Expressible == QTag = "IxDyn" \/ Len(bshape) = Len(c.qshape) + Len(c.trailing)
DTag == IF Len(DataShape) = 1 THEN "Ix1" ELSE IF Len(DataShape) = 2 THEN "Ix2" ELSE "Ix3"

Build == [ev |-> "B1", id |-> 1, el |-> "f64", xdef |-> 1, x |-> <<>>, d |-> [s |-> DataShape, v |-> DataVals],
          dtag |-> DTag, store |-> "Owned", dlay |-> "C", xlay |-> "-", st |-> [k |-> "Linear", ex |-> 0]]
Query == [ev |-> "Q1", id |-> 1, th |-> 0, en |-> "array_into", qtag |-> QTag, qlay |-> "C",
          q |-> [s |-> c.qshape, v |-> QVals], buf |-> [lay |-> c.lay, s |-> bshape]]

Emit == pc = "enter" /\ Expressible =>
            /\ PrintT("CASE " \o ToJson(Build))
            /\ PrintT("CASE " \o ToJson(Query))
=============================================================================

SPECIFICATION Spec
CONSTANT ConstructorIndexes = FALSE
INVARIANTS Emit AcceptsExactlyValid ErrorKindIsViolated NeverPanics
CHECK_DEADLOCK FALSE

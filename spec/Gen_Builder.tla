----------------------------- MODULE Gen_Builder -----------------------------
(***************************************************************************)
(* Spec -> impl for C10: TLC enumerates the rows of the 1-D builder         *)
(* decision table (module Builder) and prints each as a concrete B1 script  *)
(* event (f64 payloads) - the same concretisation the model itself checks   *)
(* against the contract.  The harness' script interpreter performs the      *)
(* build on the real crate; the trace specification recomputes Valid /      *)
(* ViolatedKinds from the logged inputs and judges the recorded outcome.    *)
(***************************************************************************)
EXTENDS Builder, Json

Hex(v) == IF v = "NaN" THEN "7ff8000000000000" ELSE QRound("f64", v)
HexSeq(s) == [i \in 1..Len(s) |-> Hex(s[i])]

StratJson(r) ==
    CASE r.strat.k = "Linear" -> [k |-> "Linear", ex |-> 0]
      [] r.strat.k = "Custom" -> [k |-> "Custom", ex |-> 0, min |-> r.strat.min, fb |-> r.fb, fa |-> -1]
      [] r.strat.k = "Spline" /\ r.strat.bc = "Individual" ->
            [k |-> "Spline", ex |-> 0, bc |-> "Individual", bs |-> BoundsShape(r),
             rows |-> [i \in 1..Prod(BoundsShape(r)) |-> <<"Row", "Natural", "", "Natural", "">>]]
      [] OTHER -> [k |-> "Spline", ex |-> 0, bc |-> r.strat.bc]

\* the static dimension type cannot express a boundary array of the wrong rank
Expressible(r, dyn) == r.rank >= 1 /\ (r.bounds = "rank" => dyn)

EventOf(r, dyn) ==
    LET c == Concretise(r) IN
    [ev |-> "B1", id |-> 1, el |-> "f64", xdef |-> IF r.xdef THEN 1 ELSE 0,
     x |-> IF r.xdef THEN <<>> ELSE HexSeq(c.x),
     d |-> [s |-> c.dshape, v |-> [i \in 1..Len(c.dv) |-> QRound("f64", c.dv[i])]],
     dtag |-> IF dyn THEN "IxDyn" ELSE IF r.rank = 1 THEN "Ix1" ELSE "Ix2",
     store |-> "Owned", dlay |-> "C", xlay |-> "C", st |-> StratJson(r)]

Emit == pc = "new" =>
    /\ (Expressible(row, FALSE) => PrintT("CASE " \o ToJson(EventOf(row, FALSE))))
    /\ (Expressible(row, TRUE) /\ (row.bounds = "rank" \/ row.n % 2 = 0) => PrintT("CASE " \o ToJson(EventOf(row, TRUE))))
=============================================================================

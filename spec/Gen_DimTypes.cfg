SPECIFICATION Spec
CONSTANT GuardAlsoDyn = FALSE
INVARIANTS Emit CastSafe
CHECK_DEADLOCK FALSE

---------------------------- MODULE Gen_DimTypes ----------------------------
(***************************************************************************)
(* Spec -> impl for C19 (and C09): every instantiation of the DimTypes      *)
(* model - data dimension type x query dimension type x query storage kind  *)
(* x element type x {Interp1D, Interp2D} - is printed as a script: a build  *)
(* with that data dimension type and element type, and interp_array /       *)
(* interp_array_into calls with a query of that dimension type and storage  *)
(* kind (for the dynamic query type: runtime rank 1 - the case that must    *)
(* take the general path and agree bit for bit with the static rank-1 fast  *)
(* path, which the trace specification's memo enforces).  The finite type   *)
(* table of the property is thus enumerated by the model, not by hand.      *)
(***************************************************************************)
EXTENDS DimTypes, Integers, Json, ExactQ

Pay(e, v) == IF e \in {"i32", "i64"} THEN ToString(v) ELSE QRound(e, QI(v))
DRank(d) == IF d = "IxDyn" THEN 3 ELSE RankOf(d)
\* data shape: 4 points (1-D) or 3 x 2 grid (2-D), trailing axes of length 2, 1, 1, ...
DataShape(i) ==
    LET r == DRank(i.d)
        lead == IF i.two THEN <<3, 2>> ELSE <<4>>
    IN  lead \o [k \in 1..(r - Len(lead)) |-> IF k = 1 THEN 2 ELSE 1]
RECURSIVE ProdS(_)
ProdS(s) == IF s = <<>> THEN 1 ELSE Head(s) * ProdS(Tail(s))
DataVals(i) == [k \in 1..ProdS(DataShape(i)) |-> Pay(i.e, ((k * 7) % 23) - 9)]
Mix(i) == CASE i.sq = "ViewRepr" -> 0 [] i.sq = "OwnedRepr" -> 5 [] i.sq = "OwnedArcRepr" -> 6
QShape(dq) == CASE dq = "Ix0" -> <<>> [] dq = "Ix1" -> <<3>> [] dq = "Ix2" -> <<3, 1>> [] dq = "Ix3" -> <<1, 3, 1>>
                [] dq = "Ix4" -> <<1, 1, 3, 1>> [] dq = "IxDyn" -> <<3>>
QCount(dq) == ProdS(QShape(dq))
\* in-range query points: 1-D axis is 1, 3, 5, 7; 2-D axes are 0, 2, 4 and -2, 2
QX(i) == [k \in 1..QCount(i.dq) |-> Pay(i.e, IF i.two THEN <<0, 2, 4>>[((k - 1) % 3) + 1] ELSE <<1, 4, 7>>[((k - 1) % 3) + 1])]
QY(i) == [k \in 1..QCount(i.dq) |-> Pay(i.e, <<2, 0, -2>>[((k - 1) % 3) + 1])]

Build(i) ==
    IF i.two THEN
        [ev |-> "B2", id |-> 1, el |-> i.e, xdef |-> 0, ydef |-> 0,
         x |-> <<Pay(i.e, 0), Pay(i.e, 2), Pay(i.e, 4)>>, y |-> <<Pay(i.e, -2), Pay(i.e, 2)>>,
         d |-> [s |-> DataShape(i), v |-> DataVals(i)], dtag |-> i.d, store |-> "Owned", dlay |-> "C",
         st |-> [k |-> "Bilinear", ex |-> 0]]
    ELSE
        [ev |-> "B1", id |-> 1, el |-> i.e, xdef |-> 0,
         x |-> <<Pay(i.e, 1), Pay(i.e, 3), Pay(i.e, 5), Pay(i.e, 7)>>,
         d |-> [s |-> DataShape(i), v |-> DataVals(i)], dtag |-> i.d, store |-> "Owned", dlay |-> "C", xlay |-> "C",
         st |-> [k |-> "Linear", ex |-> 0]]

Query(i, en) ==
    LET base == [ev |-> IF i.two THEN "Q2" ELSE "Q1", id |-> 1, th |-> 0, en |-> en, qtag |-> i.dq, qlay |-> "C",
                 mix |-> Mix(i), q |-> [s |-> QShape(i.dq), v |-> QX(i)]]
        withY == IF i.two THEN [q2 |-> [s |-> QShape(i.dq), v |-> QY(i)]] @@ base ELSE base
        lane == Tail(DataShape(i))
        lane2 == IF i.two THEN Tail(lane) ELSE lane
    IN  IF en = "array_into" THEN [buf |-> [lay |-> "C", s |-> QShape(i.dq) \o lane2]] @@ withY ELSE withY

\* the harness' macros instantiate query types Ix0..Ix4 and IxDyn
Emit == pc = "guard" =>
            /\ PrintT("CASE " \o ToJson(Build(inst)))
            /\ PrintT("CASE " \o ToJson(Query(inst, "array")))
            /\ PrintT("CASE " \o ToJson(Query(inst, "array_into")))
=============================================================================

SPECIFICATION Spec
CONSTANTS
  MaxAxis = 3
  MaxRank = 3
  PeelAxis1 = FALSE
INVARIANT Emit
CHECK_DEADLOCK FALSE

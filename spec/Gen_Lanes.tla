------------------------------ MODULE Gen_Lanes ------------------------------
(***************************************************************************)
(* Spec -> impl for C08 / C03: every trailing shape of the Lanes model      *)
(* (rank <= MaxRank, axes <= MaxAxis, incl. no trailing axis) is printed as *)
(* a script: a cubic-spline build over data of shape <<4>> \o trailing on   *)
(* an uneven axis with BoundaryCondition::Individual, where EVERY lane has  *)
(* its own pair of end conditions (kinds and values are functions of the    *)
(* lane's row-major number) and its own data, followed by a batch query     *)
(* inside and outside the range.  The trace specification judges lane j     *)
(* against the certified spline of lane j's data with lane j's conditions:  *)
(* a dispatch that hands a lane the boundary (or the solution) of another   *)
(* lane - row-major vs column-major, a transposed boundary array - fails    *)
(* for every shape with two non-trivial trailing axes.                      *)
(***************************************************************************)
EXTENDS Lanes, Integers, Json, ExactQ

RECURSIVE ProdS(_)
ProdS(s) == IF s = <<>> THEN 1 ELSE Head(s) * ProdS(Tail(s))

N == 4
X == <<0, 1, 3, 4>>
L == ProdS(trailing)
H(v) == QRound("f64", QI(v))
Kinds == <<"NotAKnot", "Natural", "Clamped", "FirstDeriv", "SecondDeriv">>
\* lane j (0-based, row-major over the trailing axes)
LeftKind(j) == Kinds[(j % 5) + 1]
RightKind(j) == Kinds[(((j \div 5) + 2 * j + 1) % 5) + 1]
Val(k, v) == IF k \in {"FirstDeriv", "SecondDeriv"} THEN H(v) ELSE ""
Row(j) == <<"Mixed", LeftKind(j), Val(LeftKind(j), (j % 7) - 3), RightKind(j), Val(RightKind(j), 2 - (j % 4))>>
\* data: row-major, value at (knot i, lane j)
DataAt(i, j) == ((i * i * (j + 1) + 3 * j + i) % 11) - 5
DataVals == [k \in 1..(N * L) |-> H(DataAt((k - 1) \div L, (k - 1) % L))]
DTag == <<"Ix1", "Ix2", "Ix3", "Ix4">>[Len(trailing) + 1]

Build == [ev |-> "B1", id |-> 1, el |-> "f64", xdef |-> 0, x |-> [i \in 1..N |-> H(X[i])],
          d |-> [s |-> <<N>> \o trailing, v |-> DataVals], dtag |-> DTag, store |-> "Owned", dlay |-> "C", xlay |-> "C",
          st |-> [k |-> "Spline", ex |-> 1, bc |-> "Individual", bs |-> <<1>> \o trailing, rows |-> [j \in 1..L |-> Row(j - 1)]]]
QVals == <<QRound("f64", QDiv(QI(-1), QI(2))), QRound("f64", QDiv(QI(1), QI(2))), H(2), QRound("f64", QDiv(QI(7), QI(2))), H(5)>>
Query == [ev |-> "Q1", id |-> 1, th |-> 0, en |-> "array", qtag |-> "Ix1", qlay |-> "C", q |-> [s |-> <<5>>, v |-> QVals]]

Emit == /\ PrintT("CASE " \o ToJson(Build))
        /\ PrintT("CASE " \o ToJson(Query))
=============================================================================

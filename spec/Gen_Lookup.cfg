SPECIFICATION Spec
CONSTANTS
  MaxLen = 16
  SwapHitTest = FALSE
INVARIANTS Emit NoPanic ResultIsBracket
CHECK_DEADLOCK FALSE

------------------------------ MODULE Gen_Lookup ------------------------------
(***************************************************************************)
(* Spec -> impl for C11: TLC walks the Lookup machine and prints, for every *)
(* reachable (length, initial guess, rank of the query) combination in      *)
(* which the guess is consulted, one case.  The harness realises each case  *)
(* on a real axis whose linear guess for the query IS that index (the       *)
(* lookup hook reports the guess actually taken) and records the result.    *)
(***************************************************************************)
EXTENDS Lookup, Json

\* rank = 0-based index of the bracketing interval of an in-range query
RankOfQ == IF q % 2 = 0 THEN (IF q \div 2 >= len - 1 THEN len - 2 ELSE q \div 2) ELSE (q - 1) \div 2

Emit == pc = "hit" /\ q % 2 = 1 /\ g <= len - 2 =>
            PrintT("CASE " \o ToJson([len |-> len, g |-> g, r |-> RankOfQ]))
=============================================================================

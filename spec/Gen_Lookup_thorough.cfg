SPECIFICATION Spec
CONSTANTS
  MaxLen = 40
  SwapHitTest = FALSE
INVARIANTS Emit NoPanic ResultIsBracket
CHECK_DEADLOCK FALSE

SPECIFICATION Spec
CONSTANTS
  MaxLen = 9
  NaNMax = 6
  Rels = {"LT", "EQ", "GT", "UN"}
INVARIANT Emit
CHECK_DEADLOCK FALSE

----------------------------- MODULE Gen_Monotone -----------------------------
(***************************************************************************)
(* Spec -> impl: TLC enumerates every relation word up to MaxLen pairs and  *)
(* prints it with the class the specification assigns to it.  The harness   *)
(* realises each word as concrete vectors (several element types, step      *)
(* sizes and layouts) and runs monotonic_prop on them; the trace spec then  *)
(* judges the recorded outcomes from the logged values.                     *)
(***************************************************************************)
EXTENDS Naturals, Sequences, FiniteSets, TLC, Json, NdContract, MonotoneDefs
CONSTANTS MaxLen, Rels, NaNMax

VARIABLE w
HasUN(x) == \E i \in 1..Len(x) : x[i] = "UN"
\* NaN-free words up to MaxLen pairs; words with an unordered pair up to NaNMax pairs
Words == UNION {[1..n -> Rels \ {"UN"}] : n \in 0..MaxLen}
         \cup {x \in UNION {[1..n -> Rels] : n \in 1..NaNMax} : HasUN(x)}
Init == w \in Words
Next == UNCHANGED w
Spec == Init /\ [][Next]_w

\* the automaton run on the whole word (with short circuit) agrees with the declarative class
RECURSIVE Run(_, _, _)
Run(s, x, i) == IF i > Len(x) \/ s = "NM" THEN s ELSE Run(Update(s, x[i]), x, i + 1)
AutOut(x) == IF Len(x) = 0 THEN "NotMonotonic" ELSE Finish(Run("Init", x, 1))

Emit ==
    /\ (~HasUN(w) => AutOut(w) = MonoClass(w))
    /\ (HasUN(w) => AutOut(w) \notin {"Rising:1", "Rising:0"})
    /\ PrintT("CASE " \o ToJson([rels |-> [i \in 1..Len(w) |-> w[i]], expect |-> IF HasUN(w) THEN "not-rising" ELSE MonoClass(w)]))
=============================================================================

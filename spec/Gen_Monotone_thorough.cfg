SPECIFICATION Spec
CONSTANTS
  MaxLen = 11
  NaNMax = 8
  Rels = {"LT", "EQ", "GT", "UN"}
INVARIANT Emit
CHECK_DEADLOCK FALSE

----------------------------- MODULE Gen_NdInterp -----------------------------
(***************************************************************************)
(* Spec -> impl for the SYSTEM model: behaviours of NdInterp are printed as *)
(* scripts and stepped through the real crate.                              *)
(*                                                                          *)
(* A behaviour here: the interpolators GenIds are built one after the other *)
(* (every axis of the model - valid even / uneven, tie, NaN, too short -,    *)
(* every data lane and every strategy of the configured universe: Linear,   *)
(* Spline with Natural / NotAKnot / Periodic ends, with and without         *)
(* extrapolation), then MaxCalls calls are made, each to                    *)
(* any built interpolator, with any query list of GenQLists and any buffer  *)
(* situation (allocating entry point, correctly shaped buffer, wrongly      *)
(* shaped buffer).  TLC enumerates EVERY such history; each one becomes a   *)
(* script whose query events carry the model's reply (`exp`).  The harness  *)
(* performs the calls on the real crate in the order of the behaviour; the  *)
(* trace specification judges every recorded call as usual and, in          *)
(* addition, checks that its own verdict basis (outcome class, exact        *)
(* reference values) coincides with the system model's reply.               *)
(*                                                                          *)
(* GenSpec refines NdInterp!Spec (checked by TLC as a property), i.e. the   *)
(* scripts are behaviours of the system specification, not something else.  *)
(***************************************************************************)
EXTENDS NdInterp, Json

CONSTANTS GenIds, GenEls, GenBufs,
          Pairs,        \* TRUE = two-element query lists as well
          ValidOnly     \* TRUE = only valid builds (long random walks, TLC simulation mode)
VARIABLE trail
gvars == <<vars, trail>>

GenQLists == {<<q>> : q \in Queries} \cup (IF Pairs THEN {<<a, b>> : a, b \in {"-1", "1", "4", "NaN"}} ELSE {}) \cup EmptyQ
T == CHOOSE t \in Threads : TRUE

GInit == Init /\ trail = <<>>

NextId == Len(SelectSeq(trail, LAMBDA e : e.a = "B")) + 1
AllBuilt == NextId > Cardinality(GenIds)

GBuild == /\ ~AllBuilt
          /\ \/ \E x \in Axes, y \in Datas, st \in Strats :
                   /\ ValidOnly => Valid1(Cfg(x, y, st))
                   /\ Build(NextId, x, y, st)
                   /\ trail' = Append(trail, [a |-> "B", i |-> NextId, x |-> x, y |-> y, st |-> st])
             \/ \E x \in Axes, yy \in AxesY, st \in Strats2 :
                   /\ ValidOnly => Valid2(Cfg2(x, yy, st))
                   /\ Build2(NextId, x, yy, st)
                   /\ trail' = Append(trail, [a |-> "B", i |-> NextId, x |-> x, y |-> yy, st |-> st])
GCall == /\ AllBuilt
         /\ \E i \in GenIds, buf \in GenBufs :
              \E qs \in (IF objs[i].phase = "interp" /\ objs[i].cfg.rank = 2 THEN QLists2 ELSE GenQLists) :
                /\ Call(T, i, qs, buf)
                /\ trail' = Append(trail, [a |-> "Q", i |-> i, qs |-> qs, buf |-> buf])
GReturn == Return(T) /\ UNCHANGED trail
GNext == GBuild \/ GCall \/ GReturn
GenSpec == GInit /\ [][GNext]_gvars

NdSpec == Init /\ [][Next]_vars      \* the system specification proper

Done == /\ AllBuilt /\ ~pend[T].busy
        /\ (ncalls = MaxCalls \/ \A i \in GenIds : objs[i].phase # "interp")

\* ---- rendering ---------------------------------------------------------------------------
Pay(e, v) == IF IsNaN(v) THEN (IF e = "f64" THEN "7ff8000000000000" ELSE "7fc00000")
             ELSE IF IsNInf(v) THEN (IF e = "f64" THEN "fff0000000000000" ELSE "ff800000")
             ELSE IF IsPInf(v) THEN (IF e = "f64" THEN "7ff0000000000000" ELSE "7f800000")
             ELSE QRound(e, v)
PaySeq(e, s) == [k \in 1..Len(s) |-> Pay(e, s[k])]

FlatGrid == [k \in 1..(Len(Grid) * Len(Grid[1])) |-> Grid[((k - 1) \div Len(Grid[1])) + 1][((k - 1) % Len(Grid[1])) + 1]]
BuildEv(e, b) ==
    IF b.st.k = "Bilinear"
    THEN [ev |-> "B2", id |-> b.i, el |-> e, xdef |-> 0, ydef |-> 0, x |-> PaySeq(e, b.x), y |-> PaySeq(e, b.y),
          d |-> [s |-> <<Len(Grid), Len(Grid[1])>>, v |-> PaySeq(e, FlatGrid)], dtag |-> "Ix2", store |-> "Owned", dlay |-> "C",
          st |-> b.st]
    ELSE LET c == Cfg(b.x, b.y, b.st) IN
         [ev |-> "B1", id |-> b.i, el |-> e, xdef |-> 0, x |-> PaySeq(e, b.x),
          d |-> [s |-> c.dshape, v |-> PaySeq(e, c.dv)], dtag |-> IF Len(b.y) = 1 THEN "Ix1" ELSE "Ix2",
          store |-> "Owned", dlay |-> "C", xlay |-> "C", st |-> b.st]

\* position k of the call in the trail varies the static query type
QueryEv(e, c, k) ==
    LET n == Len(c.qs)
        o == objs[c.i]
        two == o.cfg.rank = 2
        lanes == IF ~two /\ NLanes(o) > 1 THEN <<NLanes(o)>> ELSE <<>>       \* trailing axes of the result
        r == ReplyOf(c.i, o, c.qs, c.buf)
        exp == [out |-> r.out, vals |-> r.vals]
        single == c.buf = "none" /\ n = 1 /\ k % 2 = 0                     \* a single-point entry: scalar / interp
        qshape == IF single THEN <<>> ELSE <<n>>
        base == [ev |-> IF two THEN "Q2" ELSE "Q1", id |-> c.i, th |-> 0, qlay |-> "C", exp |-> exp,
                 en |-> IF single THEN (IF lanes = <<>> THEN "scalar" ELSE "interp")
                        ELSE IF c.buf = "none" THEN "array" ELSE "array_into",
                 qtag |-> IF single THEN (IF lanes = <<>> THEN "Ix0" ELSE "-") ELSE IF k % 3 = 0 THEN "IxDyn" ELSE "Ix1",
                 q |-> [s |-> qshape, v |-> IF two THEN PaySeq(e, [j \in 1..n |-> c.qs[j][1]]) ELSE PaySeq(e, c.qs)]]
        withY == IF two THEN [q2 |-> [s |-> qshape, v |-> PaySeq(e, [j \in 1..n |-> c.qs[j][2]])]] @@ base ELSE base
    IN  IF c.buf = "none" THEN withY
        \* a wrong buffer is one too long on the query axis; for the EMPTY batch over multi-lane data it is wrong in
        \* the lane axis instead (no lane is ever selected for it, so only an explicit shape check can reject it)
        ELSE [buf |-> [lay |-> "C", s |-> IF c.buf = "ok" THEN <<n>> \o lanes
                                          ELSE IF n = 0 /\ lanes # <<>> THEN <<0, lanes[1] + 1>>
                                          ELSE <<n + 1>> \o lanes]] @@ withY

Emit1(e) ==
    /\ PrintT("CASE " \o ToJson([ev |-> "Mark"]))
    /\ \A k \in 1..Len(trail) :
          LET t == trail[k] IN
          IF t.a = "B" THEN PrintT("CASE " \o ToJson(BuildEv(e, t)))
          ELSE IF objs[t.i].phase = "interp" THEN PrintT("CASE " \o ToJson(QueryEv(e, t, k))) ELSE TRUE
Emit == Done => \A e \in GenEls : Emit1(e)
=============================================================================

SPECIFICATION GenSpec
CONSTANTS
  Threads = {1}
  MaxCalls = 2
  Hint = FALSE
  GenIds = {1}
  GenEls = {"f64"}
  GenBufs = {"none"}
  ValidOnly = FALSE
  Pairs = FALSE
  Strats <- NoStrats
  Strats2 <- StratsBilinear
  Ids <- GenIds
INVARIANT Emit
PROPERTY NdSpec
CHECK_DEADLOCK FALSE

SPECIFICATION GenSpec
CONSTANTS
  Threads = {1}
  MaxCalls = 2
  Hint = FALSE
  GenIds = {1}
  GenEls = {"f64", "f32"}
  GenBufs = {"none", "ok", "bad"}
  ValidOnly = FALSE
  Pairs = FALSE
  Strats <- StratsSpline
  Axes <- Axes4
  Datas <- Datas3
  Ids <- GenIds
INVARIANT Emit
PROPERTY NdSpec
CHECK_DEADLOCK FALSE

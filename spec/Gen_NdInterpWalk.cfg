SPECIFICATION GenSpec
CONSTANTS
  Threads = {1}
  MaxCalls = 40
  Hint = FALSE
  GenIds = {1, 2}
  GenEls = {"f64"}
  GenBufs = {"none", "ok", "bad"}
  ValidOnly = TRUE
  Pairs = TRUE
  Strats <- StratsAll
  Axes <- Axes4
  Datas <- Datas3
  Strats2 <- StratsBilinear
  Ids <- GenIds
INVARIANT Emit
CHECK_DEADLOCK FALSE

SPECIFICATION GenSpec
CONSTANTS
  Threads = {1}
  MaxCalls = 2
  Hint = FALSE
  GenIds = {1}
  GenEls = {"f64", "f32"}
  GenBufs = {"none", "ok", "bad"}
  ValidOnly = FALSE
  Pairs = TRUE
  Ids <- GenIds
  Datas <- DatasLin
INVARIANT Emit
PROPERTY NdSpec
CHECK_DEADLOCK FALSE

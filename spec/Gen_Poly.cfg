SPECIFICATION Spec
CONSTANTS
  Ns = {3, 4}
  Spacings = {1, 3}
  UnitExps = {6}
  Els = {"f64"}
  LinUnitExps = {80, 1120}
INVARIANT Emit
CHECK_DEADLOCK FALSE

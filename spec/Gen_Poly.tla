------------------------------- MODULE Gen_Poly -------------------------------
(***************************************************************************)
(* Spec -> impl for C16 (and C03): polynomial reproduction on a grid of      *)
(* cases enumerated by TLC instead of drawn at random.                      *)
(*                                                                          *)
(* A case = an axis (n knots, every combination of the spacings, in one of  *)
(* several units - powers of two, so that everything stays exact in f64 and *)
(* f32), a polynomial p of degree <= 3 with small integer coefficients, and *)
(* a pair of end conditions that p satisfies (not-a-knot: any cubic, for 3  *)
(* points any parabola; first / second derivative: the exact value of p' /  *)
(* p'' at that end; natural: p linear; clamped: p constant).  The spline    *)
(* through the samples of p with those end conditions IS p, so every query  *)
(* inside and outside the range must return p(q).  Each case is printed as  *)
(* a build event carrying the claim `poly` (the trace specification first   *)
(* verifies the claim exactly: samples = p(x), certified reference spline   *)
(* = p on every interval) and a batch query at knots, midpoints and beyond  *)
(* both ends.                                                               *)
(***************************************************************************)
EXTENDS Naturals, Integers, Sequences, FiniteSets, TLC, Json, ExactQ

CONSTANTS Ns,          \* axis lengths
          Spacings,    \* interval widths (in grid units)
          UnitExps,    \* the axis unit is 2^(k - 8)  (cfg files have no negative numbers)
          Els,         \* element types
          LinUnitExps  \* units 2^(k - 600) of the Linear cases

Kinds == {"NotAKnot", "FirstDeriv", "SecondDeriv", "Natural", "Clamped"}
\* Linear strategy (C16: affine functions are reproduced): lk = rk = "Linear", p of degree <= 1, and the data are
\* multiplied by the axis unit - in huge / tiny units (LinUnitExps) the product of a data difference and an axis
\* offset leaves the floating-point range although every input, the slope and every result are ordinary numbers
Coefs == {<<c0, c1, c2, c3>> : c0 \in {1}, c1 \in {0, -1}, c2 \in {0, 2}, c3 \in {0, -1, 1}}

\* p satisfies the end condition kind (for FirstDeriv / SecondDeriv the value is supplied, so always)
Admissible(c, n, lk, rk) ==
    /\ (lk = "Natural" \/ rk = "Natural") => c[3] = 0 /\ c[4] = 0
    /\ (lk = "Clamped" \/ rk = "Clamped") => c[2] = 0 /\ c[3] = 0 /\ c[4] = 0
    /\ (n = 3 /\ lk = "NotAKnot" /\ rk = "NotAKnot") => c[4] = 0

SpacingSeqs(n) == [1..(n - 1) -> Spacings]
Cases == {[n |-> n, h |-> h, u |-> u, c |-> c, lk |-> lk, rk |-> rk, el |-> e] :
            n \in Ns, h \in UNION {SpacingSeqs(m) : m \in Ns}, u \in UnitExps, c \in Coefs, lk \in Kinds, rk \in Kinds, e \in Els}
         \cup {[n |-> n, h |-> h, u |-> u, c |-> c, lk |-> "Linear", rk |-> "Linear", el |-> "f64"] :
            n \in Ns, h \in UNION {SpacingSeqs(m) : m \in Ns}, u \in LinUnitExps, c \in {cc \in Coefs : cc[3] = 0 /\ cc[4] = 0}}
Good(kk) == Len(kk.h) = kk.n - 1 /\ Admissible(kk.c, kk.n, kk.lk, kk.rk)

VARIABLE cs
Init == cs \in {kk \in Cases : Good(kk)}
Next == UNCHANGED cs
Spec == Init /\ [][Next]_cs

\* ---- exact arithmetic ----------------------------------------------------------------------
IsLin == cs.lk = "Linear"
UExp == IF IsLin THEN cs.u - 600 ELSE cs.u - 8
Unit == QPow2(UExp)
\* grid positions (in units): start at -2
RECURSIVE Pos(_)
Pos(i) == IF i = 1 THEN -2 ELSE Pos(i - 1) + cs.h[i - 1]
X(i) == QMul(QI(Pos(i)), Unit)
\* the polynomial in the variable t = x / unit keeps small integer coefficients: p(x) = sum c_d (x / unit)^d
C(d) == IF IsLin THEN (IF d = 0 THEN QMul(QI(cs.c[1]), Unit) ELSE IF d = 1 THEN QI(cs.c[2]) ELSE QI(0))
        ELSE QDiv(QI(cs.c[d + 1]), QPow2(d * UExp))          \* coefficient of x^d
P(x) == QAdd(C(0), QMul(x, QAdd(C(1), QMul(x, QAdd(C(2), QMul(x, C(3)))))))
D1(x) == QAdd(C(1), QMul(x, QAdd(QMul(QI(2), C(2)), QMul(QI(3), QMul(x, C(3))))))
D2(x) == QAdd(QMul(QI(2), C(2)), QMul(QI(6), QMul(x, C(3))))
H(v) == QRound(cs.el, v)

SideVal(kind, x) == IF kind = "FirstDeriv" THEN H(D1(x)) ELSE IF kind = "SecondDeriv" THEN H(D2(x)) ELSE ""
Row == <<"Mixed", cs.lk, SideVal(cs.lk, X(1)), cs.rk, SideVal(cs.rk, X(cs.n))>>

Build == [ev |-> "B1", id |-> 1, el |-> cs.el, xdef |-> 0, x |-> [i \in 1..cs.n |-> H(X(i))],
          d |-> [s |-> <<cs.n>>, v |-> [i \in 1..cs.n |-> H(P(X(i)))]], dtag |-> "Ix1", store |-> "Owned", dlay |-> "C", xlay |-> "C",
          st |-> IF IsLin THEN [k |-> "Linear", ex |-> 1]
                 ELSE [k |-> "Spline", ex |-> 1, bc |-> "Individual", bs |-> <<1>>, rows |-> <<Row>>],
          poly |-> << [d \in 1..4 |-> H(C(d - 1))] >>]

Half == QDiv(QI(1), QI(2))
Mid(i) == QMul(QAdd(X(i), X(i + 1)), Half)
QVals == <<H(QSub(X(1), Unit))>> \o [i \in 1..cs.n |-> H(X(i))] \o [i \in 1..(cs.n - 1) |-> H(Mid(i))]
         \o <<H(QAdd(X(cs.n), QMul(Unit, Half)))>>
Query == [ev |-> "Q1", id |-> 1, th |-> 0, en |-> "array", qtag |-> "Ix1", qlay |-> "C", q |-> [s |-> <<Len(QVals)>>, v |-> QVals]]

Emit == /\ PrintT("CASE " \o ToJson(Build))
        /\ PrintT("CASE " \o ToJson(Query))
=============================================================================

SPECIFICATION Spec
CONSTANTS
  Ns = {3, 4, 5}
  Spacings = {1, 3}
  UnitExps = {8, 6, 11}
  Els = {"f64", "f32"}
  LinUnitExps = {80, 600, 1120}
INVARIANT Emit
CHECK_DEADLOCK FALSE

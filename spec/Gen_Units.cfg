SPECIFICATION Spec
CONSTANTS
  Ns = {2, 3, 4}
  Spacings = {1, 3}
  Els = {"f64"}
INVARIANT Emit
CHECK_DEADLOCK FALSE

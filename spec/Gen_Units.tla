------------------------------- MODULE Gen_Units -------------------------------
(***************************************************************************)
(* Spec -> impl for C15: an interpolator and its twin in other units, on a  *)
(* grid of cases enumerated by TLC.                                         *)
(*                                                                          *)
(* A case = an axis (n knots, every combination of the spacings, dyadic),   *)
(* one lane of dyadic data, a strategy (Linear; cubic spline with every     *)
(* pair of end conditions incl. derivative values; periodic spline) and a   *)
(* change of units x -> c x + s, y -> d y with c > 0 and |d| powers of two  *)
(* (and derivative values scaled by d / c, d / c^2).  Because powers of two *)
(* commute with rounding, the twin must answer the transformed queries with *)
(* d times the answers of the original, bit for bit.  The script declares   *)
(* the relation with a Rel event (the trace specification verifies the      *)
(* claim on the recorded builds exactly) and asks both interpolators the    *)
(* corresponding batches.                                                   *)
(***************************************************************************)
EXTENDS Naturals, Integers, Sequences, FiniteSets, TLC, Json, ExactQ

CONSTANTS Ns, Spacings, Els

SideKinds == {"NotAKnot", "FirstDeriv", "SecondDeriv", "Natural", "Clamped"}
Strategies == {<<"Linear">>, <<"Periodic">>} \cup {<<"Spline", l, r>> : l \in SideKinds, r \in SideKinds}
\* <<c, s, d>> as <<exponent of c, s in quarters of the NEW unit, sign of d, exponent of |d|>>
Transforms == {<<-3, 0, 1, 2>>, <<5, 0, -1, -1>>, <<2, 48, 1, 0>>, <<-1, -6, -1, 1>>}

SpacingSeqs(n) == [1..(n - 1) -> Spacings]
Cases == {[n |-> n, h |-> h, st |-> st, tr |-> tr, el |-> e] :
            n \in Ns, h \in UNION {SpacingSeqs(m) : m \in Ns}, st \in Strategies, tr \in Transforms, e \in Els}
Good(kk) == Len(kk.h) = kk.n - 1 /\ (kk.st[1] # "Linear" => kk.n >= 3)

VARIABLE cs
Init == cs \in {kk \in Cases : Good(kk)}
Next == UNCHANGED cs
Spec == Init /\ [][Next]_cs

Quarter == QDiv(QI(1), QI(4))
RECURSIVE Pos(_)
Pos(i) == IF i = 1 THEN -3 ELSE Pos(i - 1) + cs.h[i - 1]
XA(i) == QMul(QI(Pos(i)), Quarter)                          \* axis of the original, in quarters
YRaw(i) == QMul(QI(((7 * i * i + 3 * i) % 11) - 5), Quarter)
YA(i) == IF cs.st[1] = "Periodic" /\ i = cs.n THEN YRaw(1) ELSE YRaw(i)

Cf == QPow2(cs.tr[1])
Sf == QMul(QI(cs.tr[2]), Quarter)
Df == QMul(QI(cs.tr[3]), QPow2(cs.tr[4]))
XB(i) == QAdd(QMul(Cf, XA(i)), Sf)
YB(i) == QMul(Df, YA(i))
H(v) == QRound(cs.el, v)

\* derivative values prescribed at the ends of the original (left, right)
FdL == QMul(QI(3), Quarter)      FdR == QDiv(QI(1), QI(2))
SdL == QMul(QI(-5), Quarter)     SdR == QDiv(QI(3), QI(2))
ValA(kind, left) == IF kind = "FirstDeriv" THEN (IF left THEN FdL ELSE FdR)
                    ELSE IF kind = "SecondDeriv" THEN (IF left THEN SdL ELSE SdR) ELSE QI(0)
ValB(kind, left) == IF kind = "FirstDeriv" THEN QDiv(QMul(ValA(kind, left), Df), Cf)
                    ELSE IF kind = "SecondDeriv" THEN QDiv(QMul(ValA(kind, left), Df), QMul(Cf, Cf)) ELSE QI(0)
Pay(kind, v) == IF kind \in {"FirstDeriv", "SecondDeriv"} THEN H(v) ELSE ""
RowOf(twin) == <<"Mixed", cs.st[2], Pay(cs.st[2], IF twin THEN ValB(cs.st[2], TRUE) ELSE ValA(cs.st[2], TRUE)),
                 cs.st[3], Pay(cs.st[3], IF twin THEN ValB(cs.st[3], FALSE) ELSE ValA(cs.st[3], FALSE))>>
Strat(twin) == IF cs.st[1] = "Linear" THEN [k |-> "Linear", ex |-> 1]
               ELSE IF cs.st[1] = "Periodic" THEN [k |-> "Spline", ex |-> 1, bc |-> "Periodic"]
               ELSE [k |-> "Spline", ex |-> 1, bc |-> "Individual", bs |-> <<1>>, rows |-> <<RowOf(twin)>>]

Build(id, twin) ==
    [ev |-> "B1", id |-> id, el |-> cs.el, xdef |-> 0, x |-> [i \in 1..cs.n |-> H(IF twin THEN XB(i) ELSE XA(i))],
     d |-> [s |-> <<cs.n>>, v |-> [i \in 1..cs.n |-> H(IF twin THEN YB(i) ELSE YA(i))]], dtag |-> "Ix1", store |-> "Owned",
     dlay |-> "C", xlay |-> "C", st |-> Strat(twin)]
Rel == [ev |-> "Rel", a |-> 1, b |-> 2, c |-> H(Cf), s |-> H(Sf), d |-> H(Df)]

\* queries of the original: knots, quarter points of every interval, two points outside
QA == <<QSub(XA(1), QI(2))>> \o [i \in 1..cs.n |-> XA(i)]
      \o [i \in 1..(cs.n - 1) |-> QAdd(XA(i), QMul(QSub(XA(i + 1), XA(i)), Quarter))]
      \o [i \in 1..(cs.n - 1) |-> QAdd(XA(i), QMul(QSub(XA(i + 1), XA(i)), QDiv(QI(1), QI(2))))]
      \o <<QAdd(XA(cs.n), QDiv(QI(7), QI(2)))>>
Query(id, twin) ==
    [ev |-> "Q1", id |-> id, th |-> 0, en |-> "array", qtag |-> "Ix1", qlay |-> "C",
     q |-> [s |-> <<Len(QA)>>, v |-> [i \in 1..Len(QA) |-> H(IF twin THEN QAdd(QMul(Cf, QA[i]), Sf) ELSE QA[i])]]]

Emit == /\ PrintT("CASE " \o ToJson(Build(1, FALSE)))
        /\ PrintT("CASE " \o ToJson(Build(2, TRUE)))
        /\ PrintT("CASE " \o ToJson(Rel))
        /\ PrintT("CASE " \o ToJson(Query(1, FALSE)))
        /\ PrintT("CASE " \o ToJson(Query(2, TRUE)))
=============================================================================

SPECIFICATION Spec
CONSTANTS
  Ns = {2, 3, 4, 5}
  Spacings = {1, 3}
  Els = {"f64", "f32"}
INVARIANT Emit
CHECK_DEADLOCK FALSE

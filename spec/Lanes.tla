-------------------------------- MODULE Lanes --------------------------------
(***************************************************************************)
(* Per-lane dispatch of BoundaryCondition::Individual (C08):                *)
(* solve_for_k_individual recurses over the LAST axis of k, data and the    *)
(* boundary array simultaneously until one lane is left, then takes         *)
(* boundary.first().  Modelled on index tuples: the lane with trailing      *)
(* index (j1..jk) must be solved with the boundary stored at [0, j1..jk].   *)
(* PeelAxis1 = TRUE peels Axis(1) off the boundary array instead (a         *)
(* negative self-test: TLC must refute it for non-trivial trailing shapes). *)
(***************************************************************************)
EXTENDS Naturals, Sequences, FiniteSets, TLC

CONSTANTS MaxAxis, MaxRank, PeelAxis1

Shapes == UNION {[1..k -> 1..MaxAxis] : k \in 0..MaxRank}

\* all index tuples of a shape
RECURSIVE Idx(_)
Idx(s) == IF s = <<>> THEN {<<>>}
          ELSE {<<i>> \o t : i \in 1..s[1], t \in Idx(Tail(s))}

\* A view is a function from its own index tuples to the ORIGINAL trailing index it denotes.
\* data / k views: shape <<n>> \o trailing (axis 0 is the interpolation axis, carried along, always index 1 here)
\* boundary view: shape <<1>> \o trailing
Remove(seq, a) == [i \in 1..(Len(seq) - 1) |-> IF i < a THEN seq[i] ELSE seq[i + 1]]
Insert(seq, a, v) == [i \in 1..(Len(seq) + 1) |-> IF i < a THEN seq[i] ELSE IF i = a THEN v ELSE seq[i - 1]]

\* axis_iter(ax) of a view given as [shape, at]: at(idx) = original trailing index; yields the sub-view for position p
SubView(view, ax, p) ==
    [shape |-> Remove(view.shape, ax),
     at |-> [idx \in Idx(Remove(view.shape, ax)) |-> view.at[Insert(idx, ax, p)]]]

\* the recursion: returns the set of <<lane (original trailing index of data), boundary used (original trailing index)>>
\* or the marker Panic when the Zip over the three axis iterators meets different lengths
Panic == << <<0>>, <<0>> >>        \* marker: the Zip over the axis iterators panics (index 0 never occurs)
RECURSIVE Solve(_, _)
Solve(dv, bv) ==
    LET nd == Len(dv.shape) IN
    IF nd > 1 THEN
        LET ax == nd                                   \* Axis(k.ndim() - 1), 1-based
            bax == IF PeelAxis1 THEN 2 ELSE ax           \* Axis(1) of the boundary array in the negative variant
        IN  IF dv.shape[ax] # bv.shape[bax] THEN {Panic}
            ELSE UNION {Solve(SubView(dv, ax, p), SubView(bv, bax, p)) : p \in 1..dv.shape[ax]}
    ELSE {<<dv.at[<<1>>], bv.at[<<1>>]>>}                \* boundary.first()

VARIABLE trailing
Init == trailing \in Shapes
Next == UNCHANGED trailing
Spec == Init /\ [][Next]_trailing

DataView == [shape |-> <<1>> \o trailing, at |-> [idx \in Idx(<<1>> \o trailing) |-> Tail(idx)]]
BoundsView == DataView

\* C08: every lane is solved exactly once, with its own boundary
EachLaneItsOwnBoundary ==
    LET r == Solve(DataView, BoundsView)
    IN  /\ Panic \notin r
        /\ r = {<<j, j>> : j \in Idx(trailing)}
=============================================================================

------------------------------ MODULE LinearRef ------------------------------
(***************************************************************************)
(* Declarative reference for segment lookup and piecewise-linear           *)
(* interpolation on exact numbers.                                          *)
(***************************************************************************)
EXTENDS Num
LOCAL INSTANCE Naturals
LOCAL INSTANCE Integers
LOCAL INSTANCE Sequences
LOCAL INSTANCE TLC

\* closed-range test of C05 (false for NaN)
InRange(x, q) == NLe(x[1], q) /\ NLe(q, x[Len(x)])

(***************************************************************************)
(* IsBracket(x, q, i): i (1-based, <= n-1) is the interval the documentation *)
(* of get_lower_index promises (C11): clamped at both ends, otherwise        *)
(* x[i] <= q < x[i+1].  x strictly increasing, q not NaN.                    *)
(***************************************************************************)
IsBracket(x, q, i) ==
    LET n == Len(x) IN
    /\ i \in 1..(n - 1)
    /\ IF NLe(q, x[1]) THEN i = 1
       ELSE IF NLe(x[n], q) THEN i = n - 1
       ELSE NLe(x[i], q) /\ NLt(q, x[i + 1])

\* binary search used to *find* the unique i satisfying IsBracket (uniqueness: MC_Lookup)
RECURSIVE BSearch(_, _, _, _)
BSearch(x, q, lo, hi) ==      \* invariant: x[lo] <= q < x[hi]
    IF lo + 1 >= hi THEN lo
    ELSE LET mid == lo + ((hi - lo) \div 2)
         IN  IF NLe(x[mid], q) THEN BSearch(x, q, mid, hi) ELSE BSearch(x, q, lo, mid)

Bracket(x, q) ==
    LET n == Len(x)
        i == IF NLe(q, x[1]) THEN 1
             ELSE IF NLe(x[n], q) THEN n - 1
             ELSE BSearch(x, q, 1, n)
    IN  IF IsBracket(x, q, i) THEN i
        ELSE Assert(FALSE, <<"Bracket: search result is not the bracket", q, i>>)

\* value at q of the straight line through (x1,y1), (x2,y2); all finite, x1 # x2
Line(x1, y1, x2, y2, q) ==
    QAdd(y1, QDiv(QMul(QSub(y2, y1), QSub(q, x1)), QSub(x2, x1)))

Tau(x1, x2, q) == QDiv(QSub(q, x1), QSub(x2, x1))

\* C01: exact piecewise-linear interpolant of lane y at q (q finite), using the clamped bracket
\* (hence also the end line for extrapolation, C06)
Lin(x, y, q) ==
    LET i == Bracket(x, q) IN Line(x[i], y[i], x[i + 1], y[i + 1], q)

(***************************************************************************)
(* Tolerance of C01 / C06 (Tol, DESIGN 2.4): any backward-stable           *)
(* evaluation of the line is within                                         *)
(*     8 * eps * (1 + |tau|) * max(|y1|, |y2|, |ref|)                        *)
(* of the exact value ("a few ulps of the larger bracketing value").        *)
(***************************************************************************)
TolLin(el, y1, y2, ref, tau) ==
    QMul(QMul(QI(8), Eps(el)),
         QMul(QAdd(Q1, QAbs(tau)), QMax(QAbs(y1), QMax(QAbs(y2), QAbs(ref)))))

\* truncating integer semantics of calc_frac for i32 / i64 element types (beyond the listed
\* properties): m = trunc((y2-y1)/(x2-x1)); result = m*(q-x1)+y1 -- exact, no tolerance
Trunc(a) == IF QSign(a) >= 0 THEN QFloor(a) ELSE QNeg(QFloor(QNeg(a)))
LineInt(x1, y1, x2, y2, q) ==
    QAdd(QMul(Trunc(QDiv(QSub(y2, y1), QSub(x2, x1))), QSub(q, x1)), y1)
=============================================================================

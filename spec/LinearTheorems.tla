--------------------------- MODULE LinearTheorems ---------------------------
(***************************************************************************)
(* Theorems of the declarative references Lin / Bil on bounded grids,       *)
(* checked exhaustively by TLC in exact arithmetic.  They are the "hence"   *)
(* clauses of C01 / C04, the continuity clause of C06, the locality of C20  *)
(* and the unit / linearity laws of C15 - at the level of the reference     *)
(* the trace specification judges the implementation against.               *)
(***************************************************************************)
EXTENDS Naturals, Integers, Sequences, FiniteSets, TLC, BilinearRef

CONSTANTS MaxCoord,     \* axis knots are distinct integers in 0..MaxCoord
          MaxLen,       \* 2..MaxLen knots
          Values        \* data values (integers)

Subsets(n) == {S \in SUBSET (0..MaxCoord) : Cardinality(S) = n}
RECURSIVE SortedSeq(_)
SortedSeq(S) == IF S = {} THEN <<>> ELSE LET m == CHOOSE a \in S : \A b \in S : a <= b IN <<m>> \o SortedSeq(S \ {m})
AxesOfLen(n) == {SortedSeq(S) : S \in Subsets(n)}
QAxis(ax) == [i \in 1..Len(ax) |-> QI(ax[i])]
QVals(v) == [i \in 1..Len(v) |-> QI(v[i] - 2)]      \* configured values are shifted by -2 (cfg files have no negative literals)
Half(k) == QDiv(QI(k), Q2)                       \* queries at every half integer

VARIABLES ax, dat
vars == <<ax, dat>>
Init == /\ \E n \in 2..MaxLen : ax \in AxesOfLen(n)
        /\ dat \in [1..Len(ax) -> Values]
Next == UNCHANGED vars
Spec == Init /\ [][Next]_vars

X == QAxis(ax)
Y == QVals(dat)
N == Len(ax)
InQs == {Half(k) : k \in (2 * ax[1])..(2 * ax[N])}
OutQs == {Half(k) : k \in (2 * ax[1] - 5)..(2 * ax[1] - 1)} \cup {Half(k) : k \in (2 * ax[N] + 1)..(2 * ax[N] + 5)}

\* C01: every data point is reproduced at its axis value
KnotsReproduced == \A i \in 1..N : Lin(X, Y, X[i]) = Y[i]
\* C01: the result stays within the interval spanned by the bracketing values
WithinBracket ==
    \A q \in InQs : LET i == Bracket(X, q) r == Lin(X, Y, q)
                    IN QLe(QMin(Y[i], Y[i + 1]), r) /\ QLe(r, QMax(Y[i], Y[i + 1]))
\* both intervals sharing a knot give the same value there (the bracket choice at a knot is immaterial)
KnotFromBothSides ==
    \A i \in 2..(N - 1) : Line(X[i - 1], Y[i - 1], X[i], Y[i], X[i]) = Line(X[i], Y[i], X[i + 1], Y[i + 1], X[i])
\* C06: continuity across the range ends (the end line evaluated at the end equals the data value)
ContinuousAtEnds == Lin(X, Y, X[1]) = Y[1] /\ Lin(X, Y, X[N]) = Y[N]
\* C06: outside the range the value is that of the end line
ExtrapolatesEndLine ==
    \A q \in OutQs : Lin(X, Y, q) = (IF QLt(q, X[1]) THEN Line(X[1], Y[1], X[2], Y[2], q) ELSE Line(X[N - 1], Y[N - 1], X[N], Y[N], q))
\* C20: replacing any non-bracketing value (even by NaN) leaves the result unchanged
Local ==
    \A q \in InQs \cup OutQs : LET i == Bracket(X, q) IN
        \A j \in (1..N) \ {i, i + 1} : Lin(X, [Y EXCEPT ![j] = "NaN"], q) = Lin(X, Y, q)
\* C15: unit changes and linearity in the data, exactly
UnitsAndLinearity ==
    \A q \in InQs \cup OutQs : \A c \in {Q2, QDiv(Q1, Q2), Q3} : \A s \in {QI(-3), QI(5)} : \A d \in {Q2, QI(-1), QDiv(Q1, Q2)} :
        LET X2 == [i \in 1..N |-> QAdd(QMul(c, X[i]), s)]
            Y2 == [i \in 1..N |-> QMul(d, Y[i])]
            Z == [i \in 1..N |-> QI(i * i)]
        IN  /\ Lin(X2, Y2, QAdd(QMul(c, q), s)) = QMul(d, Lin(X, Y, q))
            /\ Lin(X, [i \in 1..N |-> QAdd(Y[i], Z[i])], q) = QAdd(Lin(X, Y, q), Lin(X, Z, q))
\* default index axis == explicit axis 0..n-1
DefaultAxis == ax = [i \in 1..N |-> i - 1] => \A q \in InQs : Lin([i \in 1..N |-> QI(i - 1)], Y, q) = Lin(X, Y, q)
\* C16: affine data are reproduced everywhere
AffineReproduced ==
    \A a \in {QI(-2), Q3} : \A b \in {Q0, QDiv(Q1, Q2)} :
        LET P == [i \in 1..N |-> QAdd(a, QMul(b, X[i]))]
        IN  \A q \in InQs \cup OutQs : Lin(X, P, q) = QAdd(a, QMul(b, q))
=============================================================================

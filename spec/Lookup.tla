------------------------------- MODULE Lookup -------------------------------
(***************************************************************************)
(* get_lower_index (src/vector_extensions.rs:55-111) as a state machine,    *)
(* one action per branch / loop iteration, next to the declarative bracket  *)
(* predicate IsBracket of LinearRef (C11).                                  *)
(*                                                                          *)
(* Only the order of axis values and query matters, so the axis is          *)
(* abstracted to the even numbers 0, 2, .., 2(len-1) and the query to an    *)
(* integer position: even = exactly at a knot, odd = strictly between two   *)
(* knots, -1 = below the range (incl. -inf), 2len-1 = above (incl. +inf).   *)
(* The floating-point computation of the initial guess is abstracted to     *)
(* "any index 0..len-1 the rounding could produce" - including the last     *)
(* index, which the real code can reach (see the guess-last cases of the    *)
(* harness).                                                                *)
(***************************************************************************)
EXTENDS Naturals, Integers, Sequences, TLC, LinearRef

CONSTANTS MaxLen,       \* axis lengths 2..MaxLen
          SwapHitTest   \* FALSE: as implemented; TRUE: negative self-test (operands of && swapped)

VARIABLES len, q, pc, lo, hi, g, res, oob, steps
vars == <<len, q, pc, lo, hi, g, res, oob, steps>>

Axis(i) == 2 * i                       \* 0-based index -> value
AxisSeq == [i \in 1..len |-> QI(2 * (i - 1))]

Init ==
    /\ len \in 2..MaxLen
    /\ q \in -1..(2 * len - 1)
    /\ pc = "start" /\ lo = 0 /\ hi = 0 /\ g = 0 /\ res = -1 /\ oob = FALSE /\ steps = 0

\* `if x <= self[0] { return 0 }`
ClampLo == pc = "start" /\ q <= Axis(0) /\ res' = 0 /\ pc' = "done" /\ UNCHANGED <<len, q, lo, hi, g, oob, steps>>
\* `if x >= self[len-1] { return len-2 }`
ClampHi == pc = "start" /\ q > Axis(0) /\ q >= Axis(len - 1) /\ res' = len - 2 /\ pc' = "done" /\ UNCHANGED <<len, q, lo, hi, g, oob, steps>>
\* the linear guess: any index
Guess == pc = "start" /\ q > Axis(0) /\ q < Axis(len - 1)
         /\ g' \in 0..(len - 1) /\ lo' = 0 /\ hi' = len - 1 /\ pc' = "hit"
         /\ UNCHANGED <<len, q, res, oob, steps>>

\* `if mid_x <= x && x < self[mid_idx + 1] { return mid_idx }` - && evaluates its right operand
\* (which reads self[mid_idx+1]) only when the left one holds
HitTest ==
    /\ pc = "hit"
    /\ LET left == Axis(g) <= q
           readsNext == IF SwapHitTest THEN TRUE ELSE left
           outOfBounds == readsNext /\ g + 1 > len - 1
           right == IF g + 1 <= len - 1 THEN q < Axis(g + 1) ELSE FALSE
       IN  /\ oob' = (oob \/ outOfBounds)
           /\ IF left /\ right /\ ~outOfBounds
              THEN res' = g /\ pc' = "done" /\ UNCHANGED <<lo, hi>>
              ELSE /\ res' = res /\ pc' = "loop"
                   /\ IF left THEN lo' = g /\ hi' = hi ELSE hi' = g /\ lo' = lo
    /\ UNCHANGED <<len, q, g, steps>>

\* one iteration of `while range.0 + 1 < range.1`
BinStep ==
    /\ pc = "loop" /\ lo + 1 < hi
    /\ LET mid == ((hi - lo) \div 2) + lo
       IN  IF Axis(mid) <= q THEN lo' = mid /\ hi' = hi ELSE hi' = mid /\ lo' = lo
    /\ steps' = steps + 1
    /\ UNCHANGED <<len, q, pc, g, res, oob>>

Return == pc = "loop" /\ ~(lo + 1 < hi) /\ res' = lo /\ pc' = "done" /\ UNCHANGED <<len, q, lo, hi, g, oob, steps>>

Next == ClampLo \/ ClampHi \/ Guess \/ HitTest \/ BinStep \/ Return
Spec == Init /\ [][Next]_vars /\ WF_vars(Next)

----------------------------------------------------------------------------
\* C11
NoPanic == ~oob                                   \* every array access in bounds
SearchInv == pc = "loop" => lo < hi /\ Axis(lo) <= q /\ q < Axis(hi)

\* the bracket predicate on the integer abstraction (i is 0-based here)
IsBracketInt(i) ==
    /\ i \in 0..(len - 2)
    /\ IF q <= Axis(0) THEN i = 0
       ELSE IF q >= Axis(len - 1) THEN i = len - 2
       ELSE Axis(i) <= q /\ q < Axis(i + 1)
ResultIsBracket == pc = "done" => res <= len - 2 /\ IsBracketInt(res)

\* binding of the abstraction to the declarative predicate of LinearRef on exact numbers
\* (checked in the small configuration; quadratic in len):
AbstractionFaithful == \A i \in 0..(len - 1) : IsBracketInt(i) <=> IsBracket(AxisSeq, QI(q), i + 1)
\* the declarative bracket is unique, so "the" bracketing interval is well defined
BracketUnique == \A i, j \in 1..(len - 1) : IsBracket(AxisSeq, QI(q), i) /\ IsBracket(AxisSeq, QI(q), j) => i = j
\* and the reference search used by the trace specification finds it
RefSearchAgrees == IsBracket(AxisSeq, QI(q), Bracket(AxisSeq, QI(q)))
\* the loop needs at most ceil(log2(len)) + 1 iterations
RECURSIVE Log2Up(_)
Log2Up(n) == IF n <= 1 THEN 0 ELSE 1 + Log2Up((n + 1) \div 2)
StepBound == steps <= Log2Up(len) + 1
Terminates == <>(pc = "done")
=============================================================================

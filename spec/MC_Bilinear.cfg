SPECIFICATION Spec
CONSTANTS
  XAxes <- MCXAxes
  YAxes <- MCYAxes
  Seeds <- MCSeeds
INVARIANTS NodesReproduced GridLineIsLinear TransposeSymmetric NestedLinear BilinearReproduced Local Units
CHECK_DEADLOCK FALSE

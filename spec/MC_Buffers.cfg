SPECIFICATION Spec
CONSTANTS
  AsFound = FALSE
  MaxAxis = 2
INVARIANTS WrongShapeRejected RightShapeAccepted WritesExact NothingOutside
CHECK_DEADLOCK FALSE

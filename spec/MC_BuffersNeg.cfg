SPECIFICATION Spec
CONSTANTS
  AsFound = TRUE
  MaxAxis = 2
INVARIANTS WrongShapeRejected
CHECK_DEADLOCK FALSE

SPECIFICATION Spec
CONSTANTS
  AsFound = TRUE
  MaxAxis = 2
INVARIANTS RightShapeAccepted
CHECK_DEADLOCK FALSE

SPECIFICATION Spec
CONSTANTS
  AsFound = FALSE
  MaxAxis = 3
INVARIANTS WrongShapeRejected RightShapeAccepted WritesExact NothingOutside
CHECK_DEADLOCK FALSE

SPECIFICATION Spec
CONSTANT ConstructorIndexes = FALSE
INVARIANTS NeverPanics AcceptsExactlyValid ErrorKindIsViolated StrategySeesValidInput
CHECK_DEADLOCK FALSE

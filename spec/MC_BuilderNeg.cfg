SPECIFICATION Spec
CONSTANT ConstructorIndexes = TRUE
INVARIANTS NeverPanics
CHECK_DEADLOCK FALSE

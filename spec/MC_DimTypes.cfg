SPECIFICATION Spec
CONSTANT GuardAlsoDyn = FALSE
INVARIANTS CastSafe FastIffIx1 CastCount ResultDimSound
CHECK_DEADLOCK FALSE

SPECIFICATION Spec
CONSTANT GuardAlsoDyn = TRUE
INVARIANTS CastSafe
CHECK_DEADLOCK FALSE

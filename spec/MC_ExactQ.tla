------------------------------ MODULE MC_ExactQ ------------------------------
(***************************************************************************)
(* Validates the Java override behind ExactQ against ExactQRef on every     *)
(* pair of operands with |numerator| <= B, 1 <= denominator <= B, and the   *)
(* IEEE decoding against hand-computed constants.  One state per operand    *)
(* pair; all checks are invariants.                                         *)
(***************************************************************************)
EXTENDS Integers, Sequences, TLC, ExactQ
CONSTANT B
R == INSTANCE ExactQRef

VARIABLES a, b
vars == <<a, b>>
Pairs == (-B..B) \X (1..B)

Init == a \in Pairs /\ b \in Pairs
Next == UNCHANGED vars
Spec == Init /\ [][Next]_vars

\* embedding of a pair into ExactQ
E(p) == QDiv(QI(p[1]), QI(p[2]))
\* canonical string of a normalised pair, built without the override under test for division
Canon(p) == LET n == R!Norm(p) IN IF n[2] = 1 THEN QI(n[1]) ELSE E(n)

AgreeAdd == E(R!RAdd(a, b)) = QAdd(E(a), E(b))
AgreeSub == E(R!RSub(a, b)) = QSub(E(a), E(b))
AgreeMul == E(R!RMul(a, b)) = QMul(E(a), E(b))
AgreeDiv == b[1] # 0 => E(R!RDiv(a, b)) = QDiv(E(a), E(b))
AgreeLt  == R!RLt(a, b) = QLt(E(a), E(b))
AgreeLe  == R!RLe(a, b) = QLe(E(a), E(b))
AgreeFloor == QI(R!RFloor(a)) = QFloor(E(a))
AgreeSign == QSign(E(a)) = (IF a[1] < 0 THEN -1 ELSE IF a[1] = 0 THEN 0 ELSE 1)
AgreeNegAbs == /\ QNeg(E(a)) = E(<<-a[1], a[2]>>)
               /\ QAbs(E(a)) = E(<<R!AbsI(a[1]), a[2]>>)
CanonicalEq == (R!Norm(a) = R!Norm(b)) <=> (E(a) = E(b))
FieldAxioms ==
    /\ QAdd(E(a), E(b)) = QAdd(E(b), E(a))
    /\ QMul(E(a), E(b)) = QMul(E(b), E(a))
    /\ QSub(QAdd(E(a), E(b)), E(b)) = E(a)
    /\ b[1] # 0 => QMul(QDiv(E(a), E(b)), E(b)) = E(a)
    /\ QMul(E(a), QAdd(E(b), Q1)) = QAdd(QMul(E(a), E(b)), E(a))
ToIntOk == a[2] = 1 => QToInt(E(a)) = a[1]

\* IEEE decoding: hand-computed constants
Decode ==
    /\ QDecode("f64", "3ff0000000000000") = "1"
    /\ QDecode("f64", "bff8000000000000") = "-3/2"
    /\ QDecode("f64", "0000000000000000") = "0"
    /\ QDecode("f64", "8000000000000000") = "0"
    /\ QDecode("f64", "7ff0000000000000") = "+Inf"
    /\ QDecode("f64", "fff0000000000000") = "-Inf"
    /\ QDecode("f64", "7ff8000000000000") = "NaN"
    /\ QDecode("f64", "3fb999999999999a") = QDiv("3602879701896397", QPow2(55))
    /\ QDecode("f64", "0000000000000001") = QPow2(-1074)
    /\ QDecode("f64", "7fefffffffffffff") = QMul(QSub(QPow2(53), Q1), QPow2(971))
    /\ QDecode("f32", "3f800000") = "1"
    /\ QDecode("f32", "c0490fdb") = QNeg(QDiv("13176795", QPow2(22)))
    /\ QDecode("f32", "7f800000") = "+Inf"
    /\ QDecode("f32", "ffc00000") = "NaN"
    /\ QDecode("f32", "00000001") = QPow2(-149)
    /\ QDecode("i32", "-17") = "-17"
    /\ QDecode("i64", "9007199254740993") = "9007199254740993"
    /\ QSignBit("f64", "8000000000000000") /\ ~QSignBit("f64", "0000000000000000")
    /\ QSignBit("f32", "80000000") /\ ~QSignBit("i32", "5") /\ QSignBit("i32", "-5")
    /\ QRound("f64", "1/10") = "3fb999999999999a"
    /\ QRound("f64", "-3/2") = "bff8000000000000"
    /\ QRound("f32", "1/10") = "3dcccccd"
    /\ QRound("f64", QAdd(Q1, QPow2(-53))) = "3ff0000000000000"            \* tie -> even
    /\ QRound("f64", QAdd(Q1, QMul(Q3, QPow2(-53)))) = "3ff0000000000002"  \* tie -> even (up)
    /\ QRound("f64", QAdd(Q1, QAdd(QPow2(-53), QPow2(-200)))) = "3ff0000000000001"
    /\ QRound("i32", "-7/2") = "-3" /\ QRound("i64", "7/2") = "3"
    /\ QPow2(0) = "1" /\ QPow2(-2) = "1/4" /\ QPow2(70) = "#400000000000000000/1" /\ QMul(QPow2(70), QPow2(-70)) = "1"
=============================================================================

SPECIFICATION Spec
CONSTANT B = 6
INVARIANTS AgreeAdd AgreeSub AgreeMul AgreeDiv AgreeLt AgreeLe AgreeFloor AgreeSign AgreeNegAbs CanonicalEq FieldAxioms ToIntOk Decode
CHECK_DEADLOCK FALSE

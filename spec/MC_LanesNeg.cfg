SPECIFICATION Spec
CONSTANTS
  MaxAxis = 2
  MaxRank = 2
  PeelAxis1 = TRUE
INVARIANT EachLaneItsOwnBoundary
CHECK_DEADLOCK FALSE

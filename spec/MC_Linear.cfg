SPECIFICATION Spec
CONSTANTS
  MaxCoord = 5
  MaxLen = 3
  Values = {0, 2, 3}
INVARIANTS KnotsReproduced WithinBracket KnotFromBothSides ContinuousAtEnds ExtrapolatesEndLine Local UnitsAndLinearity DefaultAxis AffineReproduced
CHECK_DEADLOCK FALSE

SPECIFICATION Spec
CONSTANTS
  MaxCoord = 6
  MaxLen = 4
  Values = {0, 2, 3}
INVARIANTS KnotsReproduced WithinBracket KnotFromBothSides ContinuousAtEnds ExtrapolatesEndLine Local UnitsAndLinearity DefaultAxis AffineReproduced
CHECK_DEADLOCK FALSE

SPECIFICATION Spec
CONSTANTS
  MaxLen = 40
  SwapHitTest = FALSE
INVARIANTS NoPanic SearchInv ResultIsBracket StepBound
CHECK_DEADLOCK FALSE

SPECIFICATION Spec
CONSTANTS
  MaxLen = 6
  SwapHitTest = TRUE
INVARIANTS NoPanic
CHECK_DEADLOCK FALSE

SPECIFICATION Spec
CONSTANTS
  MaxLen = 10
  SwapHitTest = FALSE
INVARIANTS NoPanic SearchInv ResultIsBracket StepBound AbstractionFaithful BracketUnique RefSearchAgrees
PROPERTY Terminates
CHECK_DEADLOCK FALSE

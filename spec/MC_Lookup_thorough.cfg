SPECIFICATION Spec
CONSTANTS
  MaxLen = 128
  SwapHitTest = FALSE
INVARIANTS NoPanic SearchInv ResultIsBracket StepBound
CHECK_DEADLOCK FALSE

SPECIFICATION Spec
CONSTANTS
  MaxLen = 9
  Rels = {"LT", "EQ", "GT"}
INVARIANTS Correct NoPanic ShortCircuitSound
CHECK_DEADLOCK FALSE

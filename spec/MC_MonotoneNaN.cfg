SPECIFICATION Spec
CONSTANTS
  MaxLen = 7
  Rels = {"LT", "EQ", "GT", "UN"}
INVARIANTS Correct NeverRisingWithNaN NoPanic ShortCircuitSound
CHECK_DEADLOCK FALSE

SPECIFICATION Spec
INVARIANTS CorrectAllLengths NeverRisingWithNaN NoPanic ShortCircuitSound
CHECK_DEADLOCK FALSE

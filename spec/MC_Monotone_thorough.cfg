SPECIFICATION Spec
CONSTANTS
  MaxLen = 13
  Rels = {"LT", "EQ", "GT"}
INVARIANTS Correct NoPanic ShortCircuitSound
CHECK_DEADLOCK FALSE

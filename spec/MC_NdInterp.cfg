SPECIFICATION Spec
CONSTANTS
  Threads = {1, 2}
  MaxCalls = 2
  Hint = FALSE
INVARIANTS OnlyValidBuilt SameQuestionSameAnswer ElementsAgree AnsweredIffInRange FiniteNeverRejected ShapeOk BadBufferNeverOk
PROPERTY Immutable
CHECK_DEADLOCK FALSE

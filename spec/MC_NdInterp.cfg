SPECIFICATION Spec
CONSTANTS
  Threads = {1, 2}
  MaxCalls = 2
  Hint = FALSE
INVARIANTS OnlyValidBuilt SameQuestionSameAnswer ElementsAgree AnsweredIffInRange FiniteNeverRejected ShapeOk EmptyBatchAnswered BadBufferNeverOk KnotsReproduced PeriodicFunction
PROPERTY Immutable
CHECK_DEADLOCK FALSE

SPECIFICATION FairSpec
CONSTANTS
  Threads = {1, 2}
  MaxCalls = 2
  Hint = FALSE
  Ids <- OneId
PROPERTY EveryCallReturns
CHECK_DEADLOCK FALSE

SPECIFICATION Spec
CONSTANTS
  Threads = {1, 2}
  MaxCalls = 3
  Hint = TRUE
INVARIANTS SameQuestionSameAnswer
CHECK_DEADLOCK FALSE

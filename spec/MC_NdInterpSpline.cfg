SPECIFICATION Spec
CONSTANTS
  Threads = {1, 2}
  MaxCalls = 2
  Hint = FALSE
  Strats <- StratsAll
  Axes <- Axes4
  Datas <- Datas3
  Ids <- OneId
INVARIANTS OnlyValidBuilt SameQuestionSameAnswer ElementsAgree AnsweredIffInRange FiniteNeverRejected ShapeOk EmptyBatchAnswered BadBufferNeverOk KnotsReproduced PeriodicFunction LaneAlone
PROPERTY Immutable
CHECK_DEADLOCK FALSE

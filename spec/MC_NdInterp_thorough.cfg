SPECIFICATION Spec
CONSTANTS
  Threads = {1, 2}
  MaxCalls = 3
  Hint = FALSE
  Axes <- AxesSmall
INVARIANTS OnlyValidBuilt SameQuestionSameAnswer ElementsAgree AnsweredIffInRange FiniteNeverRejected ShapeOk EmptyBatchAnswered BadBufferNeverOk KnotsReproduced PeriodicFunction
PROPERTY Immutable
CHECK_DEADLOCK FALSE

SPECIFICATION Spec
CONSTANTS
  Threads = {1, 2, 3}
  MaxCalls = 3
  Hint = FALSE
INVARIANTS OnlyValidBuilt SameQuestionSameAnswer ElementsAgree AnsweredIffInRange FiniteNeverRejected ShapeOk
PROPERTY Immutable
CHECK_DEADLOCK FALSE

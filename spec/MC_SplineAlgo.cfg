SPECIFICATION Spec
CONSTANTS
  RightNakUsesDx1 = FALSE
  MaxN = 4
  Spacings = {1, 3}
  DerivValues = {0, 2}
INVARIANTS SlopesAgree ValuesAgree
CHECK_DEADLOCK FALSE

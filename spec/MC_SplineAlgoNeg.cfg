SPECIFICATION Spec
CONSTANTS
  RightNakUsesDx1 = TRUE
  MaxN = 4
  Spacings = {1, 2}
  DerivValues = {0}
INVARIANTS SlopesAgree
CHECK_DEADLOCK FALSE

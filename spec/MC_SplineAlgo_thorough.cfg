SPECIFICATION Spec
CONSTANTS
  RightNakUsesDx1 = FALSE
  MaxN = 5
  Spacings = {1, 2, 3}
  DerivValues = {0, 2}
INVARIANTS SlopesAgree ValuesAgree
CHECK_DEADLOCK FALSE

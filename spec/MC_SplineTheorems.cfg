SPECIFICATION Spec
CONSTANTS
  MaxN = 5
  Spacings = {1, 2, 3}
INVARIANTS CubicReproduced ParabolaFor3 NaturalReproducesLines PeriodicIsPeriodic Units Additive
CHECK_DEADLOCK FALSE

------------------------------ MODULE Monotone ------------------------------
(***************************************************************************)
(* The state machine behind monotonic_prop (src/vector_extensions.rs),      *)
(* transcribed branch for branch, next to the declarative classification    *)
(* MonoClass of NdContract (C12).                                           *)
(*                                                                          *)
(* A vector is abstracted to its sequence of consecutive-pair relations     *)
(* over {"LT","EQ","GT"} plus "UN" (unordered: one of the two is NaN).      *)
(* The code tests `a < b`, `a == b` and falls through to an else branch;    *)
(* for an unordered pair both tests are false.                              *)
(***************************************************************************)
EXTENDS Naturals, Sequences, FiniteSets, NdContract, MonotoneDefs

CONSTANTS MaxLen,      \* longest relation word explored by the history model
          Rels         \* {"LT","EQ","GT"} or with "UN"

VARIABLES st,    \* automaton state
          rels,  \* history: the relation word consumed so far
          pc,    \* "run" | "done"
          out    \* result of monotonic_prop
vars == <<st, rels, pc, out>>

Init == st = "Init" /\ rels = <<>> /\ pc = "run" /\ out = "-"

\* one iteration of try_fold: update, then short_circuit
Feed(r) ==
    /\ pc = "run" /\ Len(rels) < MaxLen
    /\ st' = Update(st, r)
    /\ rels' = Append(rels, r)
    /\ IF st' = "NM" THEN pc' = "done" /\ out' = "NotMonotonic"      \* short_circuit: Err(NotMonotonic)
       ELSE pc' = "run" /\ out' = out

\* the iterator is exhausted (a vector of len <= 1 never enters the fold)
End ==
    /\ pc = "run"
    /\ pc' = "done"
    /\ out' = IF rels = <<>> THEN "NotMonotonic" ELSE Finish(st)
    /\ UNCHANGED <<st, rels>>

Next == (\E r \in Rels : Feed(r)) \/ End
Spec == Init /\ [][Next]_vars

HasUN(w) == \E i \in 1..Len(w) : w[i] = "UN"

\* C12 on the automaton: NaN-free words are classified exactly; words with NaN are never Rising
Correct == pc = "done" /\ ~HasUN(rels) => out = MonoClass(rels)
NeverRisingWithNaN == pc = "done" /\ HasUN(rels) => out \notin {"Rising:1", "Rising:0"}
NoPanic == out # "PANIC"
\* the short circuit is sound: once NotMonotonic, every extension of a NaN-free word stays NotMonotonic
ShortCircuitSound == st = "NM" /\ ~HasUN(rels) => {"LT", "GT"} \subseteq {rels[i] : i \in 1..Len(rels)}
=============================================================================

---------------------------- MODULE MonotoneDefs ----------------------------
(***************************************************************************)
(* MonotonicState::update and ::finish of src/vector_extensions.rs,         *)
(* transcribed arm for arm (tests in source order: for an unordered pair    *)
(* `a < b`, `a == b` and `a > b` are all false, so the else arm is taken).  *)
(***************************************************************************)
States == {"Init", "NotStrict", "R1", "R0", "F1", "F0", "NM"}

\* MonotonicState::update, one arm per `match` arm, tests in source order
Update(s, r) ==
    CASE s = "Init"      -> IF r = "LT" THEN "R1" ELSE IF r = "EQ" THEN "NotStrict" ELSE "F1"
      [] s = "NotStrict" -> IF r = "LT" THEN "R0" ELSE IF r = "EQ" THEN "NotStrict" ELSE "F0"
      [] s = "R1"        -> IF r = "EQ" THEN "R0" ELSE IF r = "LT" THEN "R1" ELSE "NM"
      [] s = "R0"        -> IF r = "EQ" THEN "R0" ELSE IF r = "LT" THEN "R0" ELSE "NM"
      [] s = "F1"        -> IF r = "EQ" THEN "F0" ELSE IF r = "GT" THEN "F1" ELSE "NM"
      [] s = "F0"        -> IF r = "EQ" THEN "F0" ELSE IF r = "GT" THEN "F0" ELSE "NM"
      [] s = "NM"        -> "NM"

\* MonotonicState::finish (Init is unreachable here: monotonic_prop returns early for len <= 1)
Finish(s) ==
    CASE s = "Init" -> "PANIC"
      [] s = "NotStrict" -> "NotMonotonic"
      [] s = "R1" -> "Rising:1"
      [] s = "R0" -> "Rising:0"
      [] s = "F1" -> "Falling:1"
      [] s = "F0" -> "Falling:0"
      [] s = "NM" -> "NotMonotonic"

=============================================================================

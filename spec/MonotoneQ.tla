------------------------------ MODULE MonotoneQ ------------------------------
(***************************************************************************)
(* Finite quotient of Monotone: instead of the whole relation word the      *)
(* state keeps which relations have occurred.  The state space is finite    *)
(* WITHOUT a length bound, so TLC's exhaustive run proves, for vectors of   *)
(* every length, that the automaton's output equals the declarative class   *)
(* (which depends on the word only through the set of its letters) and that *)
(* an unordered pair never yields Rising.                                   *)
(***************************************************************************)
EXTENDS Naturals, Sequences, FiniteSets, MonotoneDefs

VARIABLES st, seen, some
vars == <<st, seen, some>>
AllRels == {"LT", "EQ", "GT", "UN"}

Init == st = "Init" /\ seen = {} /\ some = FALSE
Feed(r) == /\ st' = Update(st, r) /\ seen' = seen \cup {r} /\ some' = TRUE
Next == \E r \in AllRels : Feed(r)
Spec == Init /\ [][Next]_vars

\* what monotonic_prop returns if the vector ends here
Out == IF ~some THEN "NotMonotonic" ELSE Finish(st)

\* declarative class from the set of letters (NaN-free)
ClassOf(S) == IF S = {} THEN "NotMonotonic"
              ELSE IF S = {"LT"} THEN "Rising:1" ELSE IF S = {"GT"} THEN "Falling:1"
              ELSE IF S = {"LT", "EQ"} THEN "Rising:0" ELSE IF S = {"GT", "EQ"} THEN "Falling:0"
              ELSE "NotMonotonic"

CorrectAllLengths == "UN" \notin seen => Out = ClassOf(seen)
NeverRisingWithNaN == "UN" \in seen => Out \notin {"Rising:1", "Rising:0"}
NoPanic == Out # "PANIC"
\* NM is absorbing and only reached when the class is NotMonotonic for good
ShortCircuitSound == st = "NM" /\ "UN" \notin seen => {"LT", "GT"} \subseteq seen
=============================================================================

------------------------------ MODULE NdContract ------------------------------
(***************************************************************************)
(* The contract of the public API as pure operators: what build() must      *)
(* accept, what a query must answer, which cells an *_into call may touch.  *)
(* Shared by the system specification NdInterp (bounded model checking)     *)
(* and the trace specification TraceNdInterp (validation of recorded calls).*)
(***************************************************************************)
EXTENDS LinearRef, Arrays
LOCAL INSTANCE Naturals
LOCAL INSTANCE Integers
LOCAL INSTANCE Sequences
LOCAL INSTANCE FiniteSets

ErrKind(out) ==
    CASE out = "Err:ShapeError" -> "ShapeError"
      [] out = "Err:NotEnoughData" -> "NotEnoughData"
      [] out = "Err:Monotonic" -> "Monotonic"
      [] out = "Err:ValueError" -> "ValueError"
      [] out = "Err:OutOfBounds" -> "OutOfBounds"
      [] OTHER -> "?"

\* what the library calls "strictly monotonic rising" (C12): at least two elements
StrictRising(x) == Len(x) >= 2 /\ StrictInc(x)

(***************************************************************************)
(* C12: the declarative classification of a vector from its sequence of     *)
(* consecutive-pair relations over {"LT", "EQ", "GT"} (NaN-free vectors).   *)
(***************************************************************************)
MonoClass(rels) ==
    LET n == Len(rels)
        S == {rels[i] : i \in 1..n}
    IN  IF n = 0 THEN "NotMonotonic"
        ELSE IF S = {"LT"} THEN "Rising:1"
        ELSE IF S = {"GT"} THEN "Falling:1"
        ELSE IF S = {"LT", "EQ"} THEN "Rising:0"
        ELSE IF S = {"GT", "EQ"} THEN "Falling:0"
        ELSE "NotMonotonic"

MinLen(st) ==
    CASE st.k = "Linear" -> 2
      [] st.k = "Spline" -> 3
      [] st.k = "Bilinear" -> 2
      [] st.k = "Custom" -> st.min

\* boundary condition of lane j (1-based, row-major over the trailing axes) in SplineRef form
SideOf(el, k, v) ==
    CASE k = "NotAKnot" -> [k |-> "NotAKnot", v |-> Q0]
      [] k = "Natural" -> [k |-> "SecondDeriv", v |-> Q0]
      [] k = "Clamped" -> [k |-> "FirstDeriv", v |-> Q0]
      [] k = "FirstDeriv" -> [k |-> "FirstDeriv", v |-> QDecode(el, v)]
      [] k = "SecondDeriv" -> [k |-> "SecondDeriv", v |-> QDecode(el, v)]

LaneBc(st, el, j) ==
    IF st.bc = "Periodic" THEN [per |-> TRUE, l |-> SideOf(el, "NotAKnot", ""), r |-> SideOf(el, "NotAKnot", "")]
    ELSE IF st.bc = "Individual" THEN
        LET row == st.rows[j] IN [per |-> FALSE, l |-> SideOf(el, row[2], row[3]), r |-> SideOf(el, row[4], row[5])]
    ELSE [per |-> FALSE, l |-> SideOf(el, st.bc, ""), r |-> SideOf(el, st.bc, "")]

(***************************************************************************)
(* C10, 1-D.  inp = [rank, n, x (decoded), st, dshape, el, dv (payloads)]   *)
(***************************************************************************)
BoundsShapeOk(inp) ==
    inp.st.k = "Spline" /\ inp.st.bc = "Individual"
        => inp.st.bs = <<1>> \o Drop(inp.dshape, 1)

\* first and last row of the data are equal element-wise (IEEE: NaN # NaN)
PeriodicEndsEqual(inp) ==
    LET L == Lanes(inp.dshape, 1)
        n == inp.n
    IN  \A j \in 1..L :
            LET a == QDecode(inp.el, inp.dv[j])
                b == QDecode(inp.el, inp.dv[(n - 1) * L + j])
            IN  NEq(a, b)

ShapeSane1(inp) == inp.rank >= 1 /\ inp.n >= MinLen(inp.st) /\ Len(inp.x) = inp.n

ViolatedKinds1(inp) ==
    (IF inp.rank < 1 THEN {"ShapeError"} ELSE {})
    \cup (IF inp.n < MinLen(inp.st) THEN {"NotEnoughData"} ELSE {})
    \cup (IF ~StrictRising(inp.x) THEN {"Monotonic"} ELSE {})
    \cup (IF Len(inp.x) # inp.n THEN {"ShapeError"} ELSE {})
    \cup (IF ~BoundsShapeOk(inp) THEN {"ShapeError"} ELSE {})
    \cup (IF inp.st.k = "Spline" /\ inp.st.bc = "Periodic" /\ ShapeSane1(inp) /\ inp.n >= 3
             /\ ~PeriodicEndsEqual(inp) THEN {"ValueError"} ELSE {})
    \cup (IF inp.st.k = "Custom" /\ inp.st.fb = 1 THEN {"ValueError"} ELSE {})

Valid1(inp) == ViolatedKinds1(inp) = {}

(***************************************************************************)
(* C10, 2-D.  inp = [rank, nx, ny, x, y, st]                                *)
(***************************************************************************)
ViolatedKinds2(inp) ==
    (IF inp.rank < 2 THEN {"ShapeError"} ELSE {})
    \cup (IF inp.rank >= 1 /\ inp.nx < MinLen(inp.st) THEN {"NotEnoughData"} ELSE {})
    \cup (IF inp.rank >= 2 /\ inp.ny < MinLen(inp.st) THEN {"NotEnoughData"} ELSE {})
    \cup (IF inp.rank >= 1 /\ Len(inp.x) # inp.nx THEN {"ShapeError"} ELSE {})
    \cup (IF inp.rank >= 2 /\ Len(inp.y) # inp.ny THEN {"ShapeError"} ELSE {})
    \cup (IF ~StrictRising(inp.x) THEN {"Monotonic"} ELSE {})
    \cup (IF ~StrictRising(inp.y) THEN {"Monotonic"} ELSE {})
    \cup (IF inp.st.k = "Custom" /\ inp.st.fb = 1 THEN {"ValueError"} ELSE {})

Valid2(inp) == ViolatedKinds2(inp) = {}

(***************************************************************************)
(* Caller-owned buffers (C14).  buf = [s (shape), st (strides, in elements),*)
(* off (offset of the first logical element), c0 / c1 (all cells of the     *)
(* backing allocation before / after the call, in memory order)].           *)
(***************************************************************************)
CellOf(buf, k) ==    \* 1-based memory cell of the k-th (0-based) logical element
    buf.off + Dot(Unflatten(k, buf.s), buf.st) + 1

WindowCells(buf) == {CellOf(buf, k) : k \in 0..(Prod(buf.s) - 1)}

WindowContents(buf) == [k \in 1..Prod(buf.s) |-> buf.c1[CellOf(buf, k - 1)]]

OutsideUntouched(buf) ==
    LET W == WindowCells(buf)
    IN  \A c \in 1..Len(buf.c0) : c \notin W => buf.c1[c] = buf.c0[c]
=============================================================================

------------------------------- MODULE NdInterp -------------------------------
(***************************************************************************)
(* System specification of ndarray-interp at design level.                  *)
(*                                                                          *)
(* State: builders and interpolators (objs), calls in flight per thread     *)
(* (pend), and the history of completed calls (hist, a set: the order of    *)
(* completed calls is irrelevant for every property stated here).           *)
(*                                                                          *)
(* One action per linearization point: Build (builder -> interpolator or    *)
(* error), Call (a thread starts a query), Return (the query computes its   *)
(* reply from the interpolator's configuration and its arguments ONLY).     *)
(* Call and Return are separate steps so that TLC interleaves the threads.  *)
(*                                                                          *)
(* The contract operators (Valid1, InRange, Bracket, Line, OutShape ...)    *)
(* are the same ones the trace specification TraceNdInterp uses to judge    *)
(* calls recorded from the real crate.                                      *)
(*                                                                          *)
(* With Hint = TRUE the interpolator keeps a "last segment" hint shared by  *)
(* all calls (the classic caching optimisation): a negative self-test -     *)
(* TLC must find the history / interleaving that makes an answer depend on  *)
(* earlier calls.                                                           *)
(***************************************************************************)
EXTENDS Naturals, Integers, Sequences, FiniteSets, TLC, NdContract, SplineRef, BilinearRef

CONSTANTS Threads, MaxCalls, Hint

\* ---- a small concrete universe (definitions, so that a configuration can substitute a larger one) -----
Axes3 == {<<"0", "2", "4">>, <<"0", "1", "4">>, <<"0", "2", "2">>, <<"0", "NaN", "4">>, <<"0", "2">>}   \* valid (even, uneven), tie, NaN, too short
Axes4 == Axes3 \cup {<<"0", "1", "4", "6">>}
AxesSmall == {<<"0", "2", "4">>, <<"0", "2", "2">>, <<"0", "NaN", "4">>, <<"0", "2">>}     \* for the deepest configuration
Axes == Axes3
\* a data set is a sequence of LANES (the trailing data axis); each lane holds one value per axis point
Datas1 == {<< <<"1", "5", "3">> >>}
Datas3 == {<< <<"1", "5", "3">> >>, << <<"1", "5", "1">> >>, << <<"1", "5", "3", "1">> >>,      \* the last two: equal ends (periodic data)
           << <<"1", "5", "3">>, <<"2", "2", "0">> >>, << <<"1", "5", "1">>, <<"0", "4", "0">> >>}   \* two lanes (the second: periodic in both)
DatasLin == {<< <<"1", "5", "3">> >>, << <<"1", "5", "3">>, <<"2", "2", "0">> >>}       \* one lane, two lanes
Datas == Datas1
StratsLinear == {[k |-> "Linear", ex |-> 0], [k |-> "Linear", ex |-> 1]}
StratsSpline == {[k |-> "Spline", ex |-> e, bc |-> b] : e \in {0, 1}, b \in {"Natural", "NotAKnot", "Periodic"}}
StratsAll == StratsLinear \cup StratsSpline
Strats == StratsLinear
Ids == {1, 2}
OneId == {1}
Queries == {"-Inf", "-1", "0", "1", "2", "4", "5", "NaN"}
\* the EMPTY batch is a question too: it is answered Ok with an empty result whatever the strategy (nothing to reject)
EmptyQ == {<<>>}
QLists == {<<q>> : q \in Queries} \cup {<<a, b>> : a, b \in {"-1", "1", "4", "NaN"}} \cup EmptyQ

\* 2-D (Interp2D): x axes as above, these y axes (valid, tie, too short), one 3 x 2 grid of data
AxesY == {<<"0", "2">>, <<"1", "1">>, <<"0">>}
Grid == << <<"1", "5">>, <<"3", "2">>, <<"4", "0">> >>
StratsBilinear == {[k |-> "Bilinear", ex |-> 0], [k |-> "Bilinear", ex |-> 1]}
NoStrats == {}
Strats2 == NoStrats          \* 2-D builds are switched on by a configuration (Strats2 <- StratsBilinear)
QLists2 == {<< <<a, b>> >> : a \in {"-1", "0", "1", "4", "5", "NaN"}, b \in {"-1", "0", "1", "2", "NaN"}}
           \cup {<< <<"1", "1">>, <<a, b>> >> : a \in {"4", "5"}, b \in {"0", "NaN"}} \cup EmptyQ
Cfg2(x, yy, st) == [rank |-> 2, nx |-> Len(Grid), ny |-> Len(Grid[1]), x |-> x, y |-> yy, z |-> Grid, st |-> st,
                    dshape |-> <<Len(Grid), Len(Grid[1])>>]

\* the inputs of build(): axis, the lanes of the data (decimal payloads, hence el = "i32" for the decoder), strategy;
\* dv: the data in row-major order (knot index first, lane second), as the contract operators expect it
NLanes(o) == Len(o.cfg.y)
Cfg(x, ys, st) ==
    LET n == Len(ys[1]) L == Len(ys) IN
    [rank |-> 1, n |-> n, x |-> x, y |-> ys, st |-> st, dshape |-> IF L = 1 THEN <<n>> ELSE <<n, L>>, el |-> "i32",
     dv |-> [k \in 1..(n * L) |-> ys[((k - 1) % L) + 1][((k - 1) \div L) + 1]]]

VARIABLES objs, pend, hist, hint, ncalls
vars == <<objs, pend, hist, hint, ncalls>>

Init ==
    /\ objs = [i \in Ids |-> [phase |-> "none"]]
    /\ pend = [t \in Threads |-> [busy |-> FALSE]]
    /\ hist = {}
    /\ hint = [i \in Ids |-> 0]
    /\ ncalls = 0

\* ---- Build: Ok iff the inputs are valid, otherwise an error among the violated kinds (C10).
\* Like the code, a spline interpolator computes its piecewise cubic ONCE, at build time (sp); queries only read it.
Build(i, x, y, st) ==
    /\ objs[i].phase = "none"
    /\ LET cfg == Cfg(x, y, st) IN
       objs' = [objs EXCEPT ![i] =
                  IF Valid1(cfg)
                  THEN [phase |-> "interp", cfg |-> cfg,
                        sp |-> IF st.k = "Spline" THEN [j \in 1..Len(y) |-> SplineOf(x, y[j], LaneBc(st, "i32", j))]
                               ELSE [none |-> TRUE]]
                  ELSE [phase |-> "failed", kinds |-> ViolatedKinds1(cfg)]]
    /\ UNCHANGED <<pend, hist, hint, ncalls>>

Build2(i, x, yy, st) ==
    /\ objs[i].phase = "none"
    /\ LET cfg == Cfg2(x, yy, st) IN
       objs' = [objs EXCEPT ![i] = IF Valid2(cfg) THEN [phase |-> "interp", cfg |-> cfg, sp |-> [none |-> TRUE]]
                                   ELSE [phase |-> "failed", kinds |-> ViolatedKinds2(cfg)]]
    /\ UNCHANGED <<pend, hist, hint, ncalls>>

\* ---- the reply of a query: a function of (interpolator, arguments) only ------------------
\* a query element is a number (1-D) or a pair <<qx, qy>> (2-D)
FinQ(cfg, q) == IF cfg.rank = 1 THEN IsFin(q) ELSE IsFin(q[1]) /\ IsFin(q[2])
InQ(cfg, q) == IF cfg.rank = 1 THEN InRange(cfg.x, q) ELSE InRange(cfg.x, q[1]) /\ InRange(cfg.y, q[2])
InRangeSeen(i, cfg, q) ==
    \* with the hint (negative self-test): segment 0 is treated as open to the left while it is the hinted one
    IF Hint /\ hint[i] = 1 THEN IsFin(q) /\ NLe(q, cfg.x[Len(cfg.x)]) ELSE InRange(cfg.x, q)

\* the value at a finite query: the line through the bracketing points (C01; the end line outside, C06), or the
\* cubic of the bracketing interval (C02; the end cubic outside, C06; wrapped by whole periods if periodic, C07)
\* lane j of the answer to query element q (C08: a lane is computed from its own data only)
ValueAt(o, q, j) ==
    LET cfg == o.cfg IN
    IF cfg.rank = 2 THEN Bil(cfg.x, cfg.y, cfg.z, q[1], q[2])        \* C04 (the end cell outside, C06)
    ELSE IF cfg.st.k = "Linear" THEN Lin(cfg.x, cfg.y[j], q)
    ELSE LET wrap == cfg.st.bc = "Periodic" /\ ~InRange(cfg.x, q)
             qq == IF wrap THEN Wrap(cfg.x, q) ELSE q
         IN  SplineAt(o.sp[j], cfg.x, Bracket(cfg.x, qq), qq)
LanesOf(o) == IF o.cfg.rank = 2 THEN 1 ELSE NLanes(o)

\* buf: "none" (allocating entry point), "ok" (correctly shaped caller buffer), "bad" (wrong shape: documented panic)
ReplyOf(i, o, qs, buf) ==
    IF buf = "bad" THEN [out |-> "Panic", shape |-> <<>>, vals |-> <<>>] ELSE
    LET cfg == o.cfg
        ex == cfg.st.ex = 1
        ok(q) == IF ex THEN FinQ(cfg, q) ELSE IF cfg.rank = 1 THEN InRangeSeen(i, cfg, q) ELSE InQ(cfg, q)
    IN  IF \A k \in 1..Len(qs) : ok(qs[k])
        THEN [out |-> "Ok", shape |-> OutShape(<<Len(qs)>>, cfg.dshape, cfg.rank),
              vals |-> LET L == LanesOf(o) IN      \* row-major: query index first, lane second (C09)
                       [k \in 1..(Len(qs) * L) |-> ValueAt(o, qs[((k - 1) \div L) + 1], ((k - 1) % L) + 1)]]
        ELSE IF \E k \in 1..Len(qs) : ~FinQ(cfg, qs[k]) /\ ex THEN [out |-> "Unspecified", shape |-> <<>>, vals |-> <<>>]
        ELSE [out |-> "Err:OutOfBounds", shape |-> <<>>, vals |-> <<>>]

Call(t, i, qs, buf) ==
    /\ ~pend[t].busy /\ ncalls < MaxCalls
    /\ objs[i].phase = "interp"
    /\ pend' = [pend EXCEPT ![t] = [busy |-> TRUE, id |-> i, qs |-> qs, buf |-> buf]]
    /\ ncalls' = ncalls + 1
    /\ UNCHANGED <<objs, hist, hint>>

Return(t) ==
    /\ pend[t].busy
    /\ LET i == pend[t].id
           cfg == objs[i].cfg
           r == ReplyOf(i, objs[i], pend[t].qs, pend[t].buf)
           lastq == pend[t].qs[Len(pend[t].qs)]
       IN  /\ hist' = hist \cup {<<i, pend[t].qs, r, pend[t].buf>>}
           /\ hint' = IF Hint /\ r.out = "Ok" /\ pend[t].qs # <<>> /\ ~IsNaN(lastq) THEN [hint EXCEPT ![i] = Bracket(cfg.x, lastq)] ELSE hint
    /\ pend' = [pend EXCEPT ![t] = [busy |-> FALSE]]
    /\ UNCHANGED <<objs, ncalls>>

Next ==
    \/ \E i \in Ids, x \in Axes, y \in Datas, st \in Strats : Build(i, x, y, st)
    \/ \E i \in Ids, x \in Axes, yy \in AxesY, st \in Strats2 : Build2(i, x, yy, st)
    \/ \E t \in Threads, i \in Ids, buf \in {"none", "ok", "bad"} :
          \E qs \in (IF objs[i].phase = "interp" /\ objs[i].cfg.rank = 2 THEN QLists2 ELSE QLists) : Call(t, i, qs, buf)
    \/ \E t \in Threads : Return(t)
Spec == Init /\ [][Next]_vars
\* a call that has started returns (the library has no waiting: nothing but the scheduler can delay a Return)
FairSpec == Spec /\ \A t \in Threads : WF_vars(Return(t))

----------------------------------------------------------------------------
\* C17: an interpolator never changes after build
Immutable == [][\A i \in Ids : objs[i].phase = "interp" => objs'[i] = objs[i]]_vars
\* C10: only valid inputs yield an interpolator; an error names a violated requirement
OnlyValidBuilt == \A i \in Ids : /\ (objs[i].phase = "interp" => IF objs[i].cfg.rank = 1 THEN Valid1(objs[i].cfg) ELSE Valid2(objs[i].cfg))
                                 /\ (objs[i].phase = "failed" => objs[i].kinds # {})
\* C17 / C09: same interpolator, same question => same answer, whatever the history, thread or batch
SameQuestionSameAnswer ==
    \A a, b \in hist : a[1] = b[1] /\ a[2] = b[2] /\ a[4] # "bad" /\ b[4] # "bad" => a[3] = b[3]
\* C14: a wrongly shaped buffer never produces Ok, and the *_into variant answers like the allocating one
BadBufferNeverOk == \A h \in hist : h[4] = "bad" => h[3].out # "Ok"
ElementsAgree ==
    \A a, b \in hist : a[1] = b[1] /\ a[3].out = "Ok" /\ b[3].out = "Ok" =>
        LET L == LanesOf(objs[a[1]]) IN
        \A i \in 1..Len(a[2]), j \in 1..Len(b[2]), l \in 1..L :
            a[2][i] = b[2][j] => a[3].vals[(i - 1) * L + l] = b[3].vals[(j - 1) * L + l]
\* C05: without extrapolation a query is answered iff every element lies in the closed range
AnsweredIffInRange ==
    \A h \in hist : LET cfg == objs[h[1]].cfg IN
        cfg.st.ex = 0 /\ h[4] # "bad" => ((h[3].out = "Ok") <=> \A k \in 1..Len(h[2]) : InQ(cfg, h[2][k]))
\* C06: with extrapolation no finite query is rejected
FiniteNeverRejected ==
    \A h \in hist : LET cfg == objs[h[1]].cfg IN
        cfg.st.ex = 1 /\ h[4] # "bad" /\ (\A k \in 1..Len(h[2]) : FinQ(cfg, h[2][k])) => h[3].out = "Ok"
\* C01 / C02: every data point is reproduced at its axis value (by the line, and by every spline)
KnotsReproduced ==
    \A h \in hist : h[3].out = "Ok" =>
        LET cfg == objs[h[1]].cfg IN
        IF cfg.rank = 1
        THEN LET L == Len(cfg.y) IN
             \A k \in 1..Len(h[2]), m \in 1..cfg.n, l \in 1..L :
                h[2][k] = cfg.x[m] => h[3].vals[(k - 1) * L + l] = cfg.y[l][m]
        ELSE \A k \in 1..Len(h[2]), a \in 1..cfg.nx, b \in 1..cfg.ny :
                h[2][k] = <<cfg.x[a], cfg.y[b]>> => h[3].vals[k] = cfg.z[a][b]
\* C07: a periodic spline with extrapolation is a periodic function: queries a whole number of periods apart agree
PeriodicFunction ==
    \A a, b \in hist : a[1] = b[1] /\ a[3].out = "Ok" /\ b[3].out = "Ok" =>
        LET cfg == objs[a[1]].cfg
            P == QSub(cfg.x[cfg.n], cfg.x[1])
        IN  cfg.rank = 1 /\ cfg.st.k = "Spline" /\ cfg.st.bc = "Periodic" /\ cfg.st.ex = 1 =>
            LET L == Len(cfg.y) IN
            \A i \in 1..Len(a[2]), j \in 1..Len(b[2]), l \in 1..L :
                LET d == QSub(a[2][i], b[2][j]) IN
                QMul(QFloor(QDiv(d, P)), P) = d => a[3].vals[(i - 1) * L + l] = b[3].vals[(j - 1) * L + l]
\* every call terminates: no call waits for another call, a lock or a cache (bound to the code by the per-call
\* watchdog of the harness: a call that does not return within 30 s is reported as a violation)
EveryCallReturns == \A t \in Threads : pend[t].busy ~> ~pend[t].busy
\* C09: result shape = query shape ++ trailing data dims
ShapeOk == \A h \in hist : h[3].out = "Ok" =>
              LET o == objs[h[1]] IN
              /\ h[3].shape = <<Len(h[2])>> \o (IF o.cfg.rank = 1 /\ NLanes(o) > 1 THEN <<NLanes(o)>> ELSE <<>>)
              /\ Len(h[3].vals) = Len(h[2]) * LanesOf(o)
\* C05 / C06 / C09: the empty batch has no element that could be rejected - it is answered, with an empty result of the
\* shape 0 ++ trailing data dims, by every strategy with or without extrapolation (and a wrongly shaped buffer is
\* still rejected: BadBufferNeverOk does not exempt it)
EmptyBatchAnswered == \A h \in hist : h[2] = <<>> /\ h[4] # "bad" => h[3].out = "Ok" /\ h[3].vals = <<>> /\ h[3].shape[1] = 0
\* C08: lane l of a multi-lane interpolator answers like a single-lane interpolator over that lane alone
LaneAlone ==
    \A h \in hist : h[3].out = "Ok" /\ objs[h[1]].cfg.rank = 1 =>
        LET o == objs[h[1]] cfg == o.cfg L == Len(cfg.y) IN
        L > 1 => \A l \in 1..L :
            LET solo == [cfg |-> Cfg(cfg.x, <<cfg.y[l]>>, cfg.st),
                         sp |-> IF cfg.st.k = "Spline" THEN <<SplineOf(cfg.x, cfg.y[l], LaneBc(cfg.st, "i32", 1))>> ELSE [none |-> TRUE]]
            IN  \A k \in 1..Len(h[2]) : h[3].vals[(k - 1) * L + l] = ValueAt(solo, h[2][k], 1)
=============================================================================

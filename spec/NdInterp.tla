------------------------------- MODULE NdInterp -------------------------------
(***************************************************************************)
(* System specification of ndarray-interp at design level.                  *)
(*                                                                          *)
(* State: builders and interpolators (objs), calls in flight per thread     *)
(* (pend), and the history of completed calls (hist, a set: the order of    *)
(* completed calls is irrelevant for every property stated here).           *)
(*                                                                          *)
(* One action per linearization point: Build (builder -> interpolator or    *)
(* error), Call (a thread starts a query), Return (the query computes its   *)
(* reply from the interpolator's configuration and its arguments ONLY).     *)
(* Call and Return are separate steps so that TLC interleaves the threads.  *)
(*                                                                          *)
(* The contract operators (Valid1, InRange, Bracket, Line, OutShape ...)    *)
(* are the same ones the trace specification TraceNdInterp uses to judge    *)
(* calls recorded from the real crate.                                      *)
(*                                                                          *)
(* With Hint = TRUE the interpolator keeps a "last segment" hint shared by  *)
(* all calls (the classic caching optimisation): a negative self-test -     *)
(* TLC must find the history / interleaving that makes an answer depend on  *)
(* earlier calls.                                                           *)
(***************************************************************************)
EXTENDS Naturals, Integers, Sequences, FiniteSets, TLC, NdContract

CONSTANTS Threads, MaxCalls, Hint

\* ---- a small concrete universe ------------------------------------------------
Axes == {<<"0", "2", "4">>, <<"0", "2", "2">>, <<"0", "NaN", "4">>, <<"0", "2">>}     \* valid, tie, NaN, too short
DataCol == <<"1", "5", "3">>
Strats == {[k |-> "Linear", ex |-> 0], [k |-> "Linear", ex |-> 1]}
Ids == {1, 2}
Queries == {"-Inf", "-1", "0", "1", "2", "4", "5", "NaN"}
QLists == {<<q>> : q \in Queries} \cup {<<a, b>> : a, b \in {"-1", "1", "4", "NaN"}}

Cfg(x, st) == [rank |-> 1, n |-> 3, x |-> x, st |-> st, dshape |-> <<3>>, el |-> "i32", dv |-> <<"1", "5", "3">>]

VARIABLES objs, pend, hist, hint, ncalls
vars == <<objs, pend, hist, hint, ncalls>>

Init ==
    /\ objs = [i \in Ids |-> [phase |-> "none"]]
    /\ pend = [t \in Threads |-> [busy |-> FALSE]]
    /\ hist = {}
    /\ hint = [i \in Ids |-> 0]
    /\ ncalls = 0

\* ---- Build: Ok iff the inputs are valid, otherwise an error among the violated kinds (C10) ----
Build(i, x, st) ==
    /\ objs[i].phase = "none"
    /\ LET cfg == Cfg(x, st) IN
       objs' = [objs EXCEPT ![i] = IF Valid1(cfg) THEN [phase |-> "interp", cfg |-> cfg]
                                   ELSE [phase |-> "failed", kinds |-> ViolatedKinds1(cfg)]]
    /\ UNCHANGED <<pend, hist, hint, ncalls>>

\* ---- the reply of a query: a function of (configuration, arguments) only ------------------
InRangeSeen(i, cfg, q) ==
    \* with the hint (negative self-test): segment 0 is treated as open to the left while it is the hinted one
    IF Hint /\ hint[i] = 1 THEN IsFin(q) /\ NLe(q, cfg.x[Len(cfg.x)]) ELSE InRange(cfg.x, q)

\* buf: "none" (allocating entry point), "ok" (correctly shaped caller buffer), "bad" (wrong shape: documented panic)
ReplyOf(i, cfg, qs, buf) ==
    IF buf = "bad" THEN [out |-> "Panic", shape |-> <<>>, vals |-> <<>>] ELSE
    LET ex == cfg.st.ex = 1
        ok(q) == IF ex THEN IsFin(q) ELSE InRangeSeen(i, cfg, q)
    IN  IF \A k \in 1..Len(qs) : ok(qs[k])
        THEN [out |-> "Ok", shape |-> OutShape(<<Len(qs)>>, cfg.dshape, 1),
              vals |-> [k \in 1..Len(qs) |-> Lin(cfg.x, DataCol, qs[k])]]
        ELSE IF \E k \in 1..Len(qs) : ~IsFin(qs[k]) /\ ex THEN [out |-> "Unspecified", shape |-> <<>>, vals |-> <<>>]
        ELSE [out |-> "Err:OutOfBounds", shape |-> <<>>, vals |-> <<>>]

Call(t, i, qs, buf) ==
    /\ ~pend[t].busy /\ ncalls < MaxCalls
    /\ objs[i].phase = "interp"
    /\ pend' = [pend EXCEPT ![t] = [busy |-> TRUE, id |-> i, qs |-> qs, buf |-> buf]]
    /\ ncalls' = ncalls + 1
    /\ UNCHANGED <<objs, hist, hint>>

Return(t) ==
    /\ pend[t].busy
    /\ LET i == pend[t].id
           cfg == objs[i].cfg
           r == ReplyOf(i, cfg, pend[t].qs, pend[t].buf)
           lastq == pend[t].qs[Len(pend[t].qs)]
       IN  /\ hist' = hist \cup {<<i, pend[t].qs, r, pend[t].buf>>}
           /\ hint' = IF Hint /\ r.out = "Ok" /\ ~IsNaN(lastq) THEN [hint EXCEPT ![i] = Bracket(cfg.x, lastq)] ELSE hint
    /\ pend' = [pend EXCEPT ![t] = [busy |-> FALSE]]
    /\ UNCHANGED <<objs, ncalls>>

Next ==
    \/ \E i \in Ids, x \in Axes, st \in Strats : Build(i, x, st)
    \/ \E t \in Threads, i \in Ids, qs \in QLists, buf \in {"none", "ok", "bad"} : Call(t, i, qs, buf)
    \/ \E t \in Threads : Return(t)
Spec == Init /\ [][Next]_vars

----------------------------------------------------------------------------
\* C17: an interpolator never changes after build
Immutable == [][\A i \in Ids : objs[i].phase = "interp" => objs'[i] = objs[i]]_vars
\* C10: only valid inputs yield an interpolator; an error names a violated requirement
OnlyValidBuilt == \A i \in Ids : /\ (objs[i].phase = "interp" => Valid1(objs[i].cfg))
                                 /\ (objs[i].phase = "failed" => objs[i].kinds # {})
\* C17 / C09: same interpolator, same question => same answer, whatever the history, thread or batch
SameQuestionSameAnswer ==
    \A a, b \in hist : a[1] = b[1] /\ a[2] = b[2] /\ a[4] # "bad" /\ b[4] # "bad" => a[3] = b[3]
\* C14: a wrongly shaped buffer never produces Ok, and the *_into variant answers like the allocating one
BadBufferNeverOk == \A h \in hist : h[4] = "bad" => h[3].out # "Ok"
ElementsAgree ==
    \A a, b \in hist : a[1] = b[1] /\ a[3].out = "Ok" /\ b[3].out = "Ok" =>
        \A i \in 1..Len(a[2]), j \in 1..Len(b[2]) : a[2][i] = b[2][j] => a[3].vals[i] = b[3].vals[j]
\* C05: without extrapolation a query is answered iff every element lies in the closed range
AnsweredIffInRange ==
    \A h \in hist : LET cfg == objs[h[1]].cfg IN
        cfg.st.ex = 0 /\ h[4] # "bad" => ((h[3].out = "Ok") <=> \A k \in 1..Len(h[2]) : InRange(cfg.x, h[2][k]))
\* C06: with extrapolation no finite query is rejected
FiniteNeverRejected ==
    \A h \in hist : LET cfg == objs[h[1]].cfg IN
        cfg.st.ex = 1 /\ h[4] # "bad" /\ (\A k \in 1..Len(h[2]) : IsFin(h[2][k])) => h[3].out = "Ok"
\* C09: result shape = query shape ++ trailing data dims
ShapeOk == \A h \in hist : h[3].out = "Ok" => h[3].shape = <<Len(h[2])>>
=============================================================================

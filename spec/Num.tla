--------------------------------- MODULE Num ---------------------------------
(***************************************************************************)
(* Numbers as the library sees them: an exact rational (module ExactQ) or  *)
(* one of the IEEE specials "NaN", "+Inf", "-Inf".  Comparison follows     *)
(* IEEE 754: every comparison with NaN is false.                           *)
(***************************************************************************)
EXTENDS ExactQ
LOCAL INSTANCE Naturals
LOCAL INSTANCE Sequences

IsNaN(v) == v = "NaN"
IsPInf(v) == v = "+Inf"
IsNInf(v) == v = "-Inf"
IsFin(v) == ~IsNaN(v) /\ ~IsPInf(v) /\ ~IsNInf(v)

\* a <= b
NLe(a, b) ==
    IF IsNaN(a) \/ IsNaN(b) THEN FALSE
    ELSE IF IsNInf(a) \/ IsPInf(b) THEN TRUE
    ELSE IF IsPInf(a) \/ IsNInf(b) THEN FALSE
    ELSE QLe(a, b)

\* a < b
NLt(a, b) ==
    IF IsNaN(a) \/ IsNaN(b) THEN FALSE
    ELSE IF IsPInf(a) \/ IsNInf(b) THEN FALSE
    ELSE IF IsNInf(a) \/ IsPInf(b) THEN TRUE
    ELSE QLt(a, b)

NEq(a, b) == ~IsNaN(a) /\ ~IsNaN(b) /\ a = b

DecSeq(el, s) == [i \in 1..Len(s) |-> QDecode(el, s[i])]
AllFin(s) == \A i \in 1..Len(s) : IsFin(s[i])

\* strictly increasing in the IEEE sense (hence NaN-free; +-Inf only possible at the ends)
StrictInc(s) == \A i \in 1..(Len(s) - 1) : NLt(s[i], s[i + 1])
=============================================================================

------------------------------ MODULE SplineAlgo ------------------------------
(***************************************************************************)
(* The cubic-spline algorithm of src/interp1d/strategies/cubic_spline.rs    *)
(* transcribed step by step - slope formulation, rows of the tridiagonal    *)
(* system, boundary rows, the 3-point special cases, the condensed periodic *)
(* system, the Thomas sweep, the a/b coefficients and the symmetric Hermite *)
(* evaluation - and evaluated in EXACT arithmetic.                          *)
(*                                                                          *)
(* Refinement: on every bounded configuration the transcription equals the  *)
(* certified declarative spline of SplineRef (C02, C03) exactly, at every   *)
(* knot slope and at sample points of every interval.  Since both sides     *)
(* are exact this is an equality, not a tolerance.                          *)
(*                                                                          *)
(* RightNakUsesDx1 = TRUE reproduces defect D1 (last row of the right       *)
(* not-a-knot boundary uses the last interval instead of the second-to-last *)
(* one): a negative self-test that TLC must refute.                         *)
(***************************************************************************)
EXTENDS Naturals, Integers, Sequences, FiniteSets, TLC, SplineRef

CONSTANTS RightNakUsesDx1, MaxN, Spacings, DerivValues

\* ---- Thomas algorithm as coded (0-based arrays become 1-based sequences) ----------
Thomas(up, mid, low, rhs) ==
    LET m == Len(rhs)
        \* forward sweep: returns <<mid', rhs'>>
        RECURSIVE F(_, _, _)
        F(i, md, rh) ==
            IF i > m THEN <<md, rh>>
            ELSE LET w == QDiv(low[i], md[i - 1])
                 IN  F(i + 1, [md EXCEPT ![i] = QSub(@, QMul(w, up[i - 1]))], [rh EXCEPT ![i] = QSub(@, QMul(w, rh[i - 1]))])
        fw == F(2, mid, rhs)
        md == fw[1]
        rh == fw[2]
        RECURSIVE B(_, _)
        B(i, acc) ==       \* acc = <<k[i+1], ..., k[m]>>
            IF i < 1 THEN acc
            ELSE LET k == IF i = m THEN QDiv(rh[m], md[m]) ELSE QDiv(QSub(rh[i], QMul(up[i], acc[1])), md[i])
                 IN  B(i - 1, <<k>> \o acc)
    IN  B(m, <<>>)

\* ---- solve_for_k ---------------------------------------------------------------
\* side = [k |-> "NotAKnot" | "FirstDeriv" | "SecondDeriv", v |-> value]   (Natural / Clamped already specialised)
SolveForK(x, y, bc) ==
    LET n == Len(x)
        dx(i) == QSub(x[i + 1], x[i])                       \* 1-based interval i = [x_i, x_{i+1}]
        dy(i) == QSub(y[i + 1], y[i])
        dx0 == dx(1)   dx1 == dx(2)   dxm1 == dx(n - 1)   dxm2 == dx(n - 2)
        \* interior rows
        up0 == [i \in 1..n |-> IF i > 1 /\ i < n THEN dx(i - 1) ELSE Q0]
        mid0 == [i \in 1..n |-> IF i > 1 /\ i < n THEN QMul(Q2, QAdd(dx(i), dx(i - 1))) ELSE Q0]
        low0 == [i \in 1..n |-> IF i > 1 /\ i < n THEN dx(i) ELSE Q0]
        rhs0 == [i \in 1..n |-> IF i > 1 /\ i < n
                                THEN QMul(Q3, QAdd(QDiv(QMul(dx(i), dy(i - 1)), dx(i - 1)), QDiv(QMul(dx(i - 1), dy(i)), dx(i))))
                                ELSE Q0]
        slope(i) == QDiv(dy(i), dx(i))
    IN
    IF bc.per /\ n = 3 THEN
        LET k == QDiv(QAdd(QDiv(slope(1), dx0), QDiv(slope(2), dx1)), QAdd(QDiv(Q1, dx0), QDiv(Q1, dx1)))
        IN  <<k, k, k>>
    ELSE IF bc.per THEN
        LET m == n - 2                                           \* size of the condensed system
            up == [i \in 1..m |-> IF i = 1 THEN dxm1 ELSE up0[i]]
            mid == [i \in 1..m |-> IF i = 1 THEN QMul(Q2, QAdd(dxm1, dx0)) ELSE mid0[i]]
            low == [i \in 1..m |-> low0[i]]
            r1 == QMul(QAdd(QMul(slope(n - 1), dx0), QMul(slope(1), dxm1)), Q3)               \* rhs[0]
            rlast == QMul(QAdd(QMul(slope(n - 2), dxm1), QMul(slope(n - 1), dxm2)), Q3)       \* rhs[len-2]
            rhs1 == [i \in 1..m |-> IF i = 1 THEN r1 ELSE rhs0[i]]
            dxm3 == dx(n - 3)
            rhs2 == [i \in 1..m |-> IF i = m THEN QNeg(dxm3) ELSE IF i = 1 THEN QNeg(dx0) ELSE Q0]
            k1 == Thomas(up, mid, low, rhs1)
            k2 == Thomas(up, mid, low, rhs2)
            km1 == QDiv(QSub(QSub(rlast, QMul(k1[1], dxm2)), QMul(k1[m], dxm1)),
                        QAdd(QAdd(QMul(k2[1], dxm2), QMul(k2[m], dxm1)), QMul(Q2, QAdd(dxm1, dxm2))))
            kk == [i \in 1..m |-> QAdd(k1[i], QMul(km1, k2[i]))]
        IN  [i \in 1..n |-> IF i <= m THEN kk[i] ELSE IF i = n - 1 THEN km1 ELSE kk[1]]
    ELSE IF n = 3 /\ bc.l.k = "NotAKnot" /\ bc.r.k = "NotAKnot" THEN
        \* the parabola through the three points
        Thomas(<<Q1, dx0, Q0>>, <<Q1, QMul(Q2, QAdd(dx0, dx1)), Q1>>, <<Q0, dx1, Q1>>,
               <<QMul(slope(1), Q2), QMul(QAdd(QMul(slope(2), dx0), QMul(slope(1), dx1)), Q3), QMul(slope(2), Q2)>>)
    ELSE
        LET dL == QSub(x[3], x[1])
            dR == QSub(x[n], x[n - 2])
            left == CASE bc.l.k = "NotAKnot" ->
                           [mid |-> dx1, up |-> dL,
                            rhs |-> QDiv(QAdd(QDiv(QMul(QMul(QAdd(dx0, QMul(Q2, dL)), dx1), dy(1)), dx0),
                                              QDiv(QMul(QSq(dx0), dy(2)), dx1)), dL)]
                      [] bc.l.k = "FirstDeriv" -> [mid |-> Q1, up |-> Q0, rhs |-> bc.l.v]
                      [] bc.l.k = "SecondDeriv" ->
                           [mid |-> QMul(Q2, dx0), up |-> dx0,
                            rhs |-> QSub(QMul(Q3, dy(1)), QDiv(QMul(bc.l.v, QSq(dx0)), Q2))]
            right == CASE bc.r.k = "NotAKnot" ->
                           [mid |-> IF RightNakUsesDx1 THEN dxm1 ELSE dxm2, low |-> dR,
                            rhs |-> QDiv(QAdd(QDiv(QMul(QSq(dxm1), dy(n - 2)), dxm2),
                                              QDiv(QMul(QMul(QAdd(QMul(Q2, dR), dxm1), dxm2), dy(n - 1)), dxm1)), dR)]
                       [] bc.r.k = "FirstDeriv" -> [mid |-> Q1, low |-> Q0, rhs |-> bc.r.v]
                       [] bc.r.k = "SecondDeriv" ->
                           [mid |-> QMul(Q2, dxm1), low |-> dxm1,
                            rhs |-> QAdd(QMul(Q3, dy(n - 1)), QDiv(QMul(bc.r.v, QSq(dxm1)), Q2))]
            up == [up0 EXCEPT ![1] = left.up]
            mid == [mid0 EXCEPT ![1] = left.mid, ![n] = right.mid]
            low == [low0 EXCEPT ![n] = right.low]
            rhs == [rhs0 EXCEPT ![1] = left.rhs, ![n] = right.rhs]
        IN  Thomas(up, mid, low, rhs)

\* calc_coefficients: a, b per interval
CoefA(x, y, k, i) == QSub(QMul(k[i], QSub(x[i + 1], x[i])), QSub(y[i + 1], y[i]))
CoefB(x, y, k, i) == QSub(QSub(y[i + 1], y[i]), QMul(k[i + 1], QSub(x[i + 1], x[i])))

\* CubicSplineStrategy::interp_into for interval i
AlgoEval(x, y, k, i, q) ==
    LET t == QDiv(QSub(q, x[i]), QSub(x[i + 1], x[i]))
        u == QSub(Q1, t)
    IN  QAdd(QAdd(QMul(u, y[i]), QMul(t, y[i + 1])),
             QMul(QMul(t, u), QAdd(QMul(CoefA(x, y, k, i), u), QMul(CoefB(x, y, k, i), t))))

----------------------------------------------------------------------------
\* bounded configurations
Sides == {[k |-> "NotAKnot", v |-> Q0]} \cup {[k |-> "FirstDeriv", v |-> QI(v)] : v \in DerivValues}
         \cup {[k |-> "SecondDeriv", v |-> QNeg(QI(v))] : v \in DerivValues}
Bcs == {[per |-> FALSE, l |-> a, r |-> b] : a, b \in Sides} \cup {[per |-> TRUE, l |-> [k |-> "NotAKnot", v |-> Q0], r |-> [k |-> "NotAKnot", v |-> Q0]]}

AxisFrom(hs) == [i \in 1..(Len(hs) + 1) |-> IF i = 1 THEN QI(-1) ELSE QAdd(QI(-1), QSumSeq([j \in 1..(i - 1) |-> QI(hs[j])]))]
Unit(n, j) == [i \in 1..n |-> IF i = j THEN Q1 ELSE Q0]
Mixed(n) == [i \in 1..n |-> QI(((i * i * 7) % 11) - 5)]
\* periodic data need equal end values
PeriodicData(n) == {Unit(n, j) : j \in 2..(n - 1)} \cup {[i \in 1..n |-> IF i = 1 \/ i = n THEN Q1 ELSE Q0]}
                   \cup {[Mixed(n) EXCEPT ![n] = Mixed(n)[1]]}
DataFor(n, bc) == IF bc.per THEN PeriodicData(n) ELSE {Unit(n, j) : j \in 1..n} \cup {Mixed(n)}

\* the configuration is chosen in two steps so that TLC's workers evaluate the (expensive) invariants in parallel
VARIABLES stage, n, hs, bc, y
vars == <<stage, n, hs, bc, y>>
NoBc == [per |-> FALSE, l |-> [k |-> "NotAKnot", v |-> Q0], r |-> [k |-> "NotAKnot", v |-> Q0]]
Init == stage = 0 /\ n = 3 /\ hs = <<1, 1>> /\ bc = NoBc /\ y = <<Q0, Q0, Q0>>
PickAxis == /\ stage = 0 /\ stage' = 1
            /\ n' \in 3..MaxN
            /\ hs' \in [1..(n' - 1) -> Spacings]
            /\ UNCHANGED <<bc, y>>
PickData == /\ stage = 1 /\ stage' = 2
            /\ bc' \in Bcs
            /\ y' \in DataFor(n, bc')
            /\ UNCHANGED <<n, hs>>
Next == PickAxis \/ PickData
Spec == Init /\ [][Next]_vars

X == AxisFrom(hs)
K == SolveForK(X, y, bc)
Ref == SplineOf(X, y, bc)         \* certified inside SplineOf (C02 + C03 as exact equalities)

\* the transcription refines the declarative spline: equal knot slopes ...
SlopesAgree == stage = 2 => \A i \in 1..n : K[i] = Ref.k[i]
\* ... and equal values at the knots, at 1/3 and 1/2 of every interval and one interval-length outside each end (C06)
ValuesAgree ==
    stage = 2 => \A i \in 1..(n - 1) :
        LET h == QSub(X[i + 1], X[i])
            pts == {X[i], X[i + 1], QAdd(X[i], QDiv(h, Q3)), QAdd(X[i], QDiv(h, Q2))}
                   \cup (IF i = 1 THEN {QSub(X[1], h)} ELSE {}) \cup (IF i = n - 1 THEN {QAdd(X[n], h)} ELSE {})
        IN  \A q \in pts : AlgoEval(X, y, K, i, q) = SplineAt(Ref, X, i, q)
\* the certified system has exactly one solution (a second, different certified spline would contradict C03's uniqueness):
\* Natural == SecondDeriv(0) and Clamped == FirstDeriv(0) are the same end conditions by construction of LaneBc.
=============================================================================

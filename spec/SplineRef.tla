------------------------------ MODULE SplineRef ------------------------------
(***************************************************************************)
(* Declarative reference for cubic-spline interpolation (C02, C03, C06,    *)
(* C07, C16) in exact rational arithmetic.                                  *)
(*                                                                          *)
(* The spline is obtained from the MOMENT formulation (unknowns M_i =        *)
(* S''(x_i)) - deliberately not the slope formulation the implementation     *)
(* uses - and is then CERTIFIED: Certified(sp) checks, as exact equalities,  *)
(* interpolation, continuity of S' and S'' at every interior knot and both   *)
(* end conditions.  These conditions determine the spline uniquely, so a     *)
(* certified result is THE spline of C02 + C03 regardless of how it was      *)
(* computed.                                                                 *)
(*                                                                          *)
(* bc = [per |-> BOOLEAN, l |-> [k |-> kind, v |-> value], r |-> ...]        *)
(* kind \in {"NotAKnot", "SecondDeriv", "FirstDeriv"}                        *)
(* (Natural = SecondDeriv 0, Clamped = FirstDeriv 0)                         *)
(***************************************************************************)
EXTENDS Num
LOCAL INSTANCE Naturals
LOCAL INSTANCE Integers
LOCAL INSTANCE Sequences
LOCAL INSTANCE TLC

Q6 == "6"

Steps(x) == [i \in 1..(Len(x) - 1) |-> QSub(x[i + 1], x[i])]
Slopes(x, y, h) == [i \in 1..(Len(x) - 1) |-> QDiv(QSub(y[i + 1], y[i]), h[i])]

(***************************************************************************)
(* Tridiagonal solve (Thomas) of the interior moment equations              *)
(*   a[j] u[j-1] + b[j] u[j] + c[j] u[j+1] = r[j],   j = 1..m               *)
(* The matrix is strictly diagonally dominant, so no pivoting is needed and *)
(* all denominators are non-zero.                                           *)
(***************************************************************************)
Factor(a, b, c) ==     \* sequence of <<c'_j, den_j>>
    LET m == Len(b)
        RECURSIVE F(_, _)
        F(j, acc) ==
            IF j > m THEN acc
            ELSE LET den == IF j = 1 THEN b[1] ELSE QSub(b[j], QMul(a[j], acc[j - 1][1]))
                 IN  F(j + 1, Append(acc, <<QDiv(c[j], den), den>>))
    IN  F(1, <<>>)

Forward(a, fac, r) ==
    LET m == Len(r)
        RECURSIVE F(_, _)
        F(j, acc) ==
            IF j > m THEN acc
            ELSE LET d == IF j = 1 THEN QDiv(r[1], fac[1][2])
                          ELSE QDiv(QSub(r[j], QMul(a[j], acc[j - 1])), fac[j][2])
                 IN  F(j + 1, Append(acc, d))
    IN  F(1, <<>>)

Backward(fac, d) ==
    LET m == Len(d)
        RECURSIVE G(_, _)
        G(j, acc) ==       \* acc = <<u[j+1], ..., u[m]>>
            IF j < 1 THEN acc
            ELSE LET u == IF j = m THEN d[m] ELSE QSub(d[j], QMul(fac[j][1], acc[1]))
                 IN  G(j - 1, <<u>> \o acc)
    IN  G(m, <<>>)

\* sum_i coef_i * v[idx_i] for a sparse functional given as a sequence of <<idx, coef>>
Apply(fn, v) ==
    LET RECURSIVE S(_)
        S(i) == IF i > Len(fn) THEN Q0 ELSE QAdd(QMul(fn[i][2], v[fn[i][1]]), S(i + 1))
    IN  S(1)

(***************************************************************************)
(* End conditions as linear functionals of the moments: sum coef*M = rhs    *)
(***************************************************************************)
LeftCond(side, h, s, n) ==
    CASE side.k = "SecondDeriv" -> [fn |-> << <<1, Q1>> >>, rhs |-> side.v]
      [] side.k = "FirstDeriv" ->
            [fn |-> << <<1, QMul(Q2, h[1])>>, <<2, h[1]>> >>, rhs |-> QMul(Q6, QSub(s[1], side.v))]
      [] side.k = "NotAKnot" ->
            [fn |-> << <<1, h[2]>>, <<2, QNeg(QAdd(h[1], h[2]))>>, <<3, h[1]>> >>, rhs |-> Q0]

RightCond(side, h, s, n) ==
    CASE side.k = "SecondDeriv" -> [fn |-> << <<n, Q1>> >>, rhs |-> side.v]
      [] side.k = "FirstDeriv" ->
            [fn |-> << <<n - 1, h[n - 1]>>, <<n, QMul(Q2, h[n - 1])>> >>, rhs |-> QMul(Q6, QSub(side.v, s[n - 1]))]
      [] side.k = "NotAKnot" ->
            [fn |-> << <<n - 2, h[n - 1]>>, <<n - 1, QNeg(QAdd(h[n - 2], h[n - 1]))>>, <<n, h[n - 2]>> >>, rhs |-> Q0]

Conds(bc, h, s, n) ==
    IF bc.per THEN
        \* S'' equal at both ends; S' equal at both ends
        << [fn |-> << <<1, Q1>>, <<n, "-1">> >>, rhs |-> Q0],
           [fn |-> << <<1, QMul(Q2, h[1])>>, <<2, h[1]>>, <<n - 1, h[n - 1]>>, <<n, QMul(Q2, h[n - 1])>> >>,
            rhs |-> QMul(Q6, QSub(s[1], s[n - 1]))] >>
    ELSE IF n = 3 /\ bc.l.k = "NotAKnot" /\ bc.r.k = "NotAKnot" THEN
        \* both not-a-knot conditions coincide: the parabola through the three points (C03)
        << [fn |-> << <<1, Q1>>, <<2, "-1">> >>, rhs |-> Q0],
           [fn |-> << <<3, Q1>>, <<2, "-1">> >>, rhs |-> Q0] >>
    ELSE << LeftCond(bc.l, h, s, n), RightCond(bc.r, h, s, n) >>

(***************************************************************************)
(* Moments: M = A + B*M1 + C*Mn by superposition of three interior solves,  *)
(* then the two end conditions give a 2x2 system for (M1, Mn).              *)
(***************************************************************************)
Moments(x, y, bc) ==
    LET n == Len(x)
        h == Steps(x)
        s == Slopes(x, y, h)
        m == n - 2
        a == [j \in 1..m |-> h[j]]
        b == [j \in 1..m |-> QMul(Q2, QAdd(h[j], h[j + 1]))]
        c == [j \in 1..m |-> h[j + 1]]
        fac == Factor(a, b, c)
        rA == [j \in 1..m |-> QMul(Q6, QSub(s[j + 1], s[j]))]
        rB == [j \in 1..m |-> IF j = 1 THEN QNeg(h[1]) ELSE Q0]
        rC == [j \in 1..m |-> IF j = m THEN QNeg(h[n - 1]) ELSE Q0]
        uA == Backward(fac, Forward(a, fac, rA))
        uB == Backward(fac, Forward(a, fac, rB))
        uC == Backward(fac, Forward(a, fac, rC))
        A == [i \in 1..n |-> IF i = 1 \/ i = n THEN Q0 ELSE uA[i - 1]]
        B == [i \in 1..n |-> IF i = 1 THEN Q1 ELSE IF i = n THEN Q0 ELSE uB[i - 1]]
        C == [i \in 1..n |-> IF i = n THEN Q1 ELSE IF i = 1 THEN Q0 ELSE uC[i - 1]]
        cd == Conds(bc, h, s, n)
        a11 == Apply(cd[1].fn, B)   a12 == Apply(cd[1].fn, C)   g1 == QSub(cd[1].rhs, Apply(cd[1].fn, A))
        a21 == Apply(cd[2].fn, B)   a22 == Apply(cd[2].fn, C)   g2 == QSub(cd[2].rhs, Apply(cd[2].fn, A))
        det == QSub(QMul(a11, a22), QMul(a12, a21))
        M1 == QDiv(QSub(QMul(g1, a22), QMul(a12, g2)), det)
        Mn == QDiv(QSub(QMul(a11, g2), QMul(g1, a21)), det)
    IN  IF det = Q0 THEN Assert(FALSE, <<"SplineRef: end conditions do not determine the spline", bc>>)
        ELSE [i \in 1..n |-> QAdd(A[i], QAdd(QMul(B[i], M1), QMul(C[i], Mn)))]

\* pieces <<c0, c1, c2, c3>>: S_i(q) = c0 + c1 t + c2 t^2 + c3 t^3, t = q - x[i]
Pieces(x, y, M) ==
    LET h == Steps(x)
        s == Slopes(x, y, h)
    IN  [i \in 1..(Len(x) - 1) |->
            << y[i],
               QSub(s[i], QDiv(QMul(h[i], QAdd(QMul(Q2, M[i]), M[i + 1])), Q6)),
               QDiv(M[i], Q2),
               QDiv(QSub(M[i + 1], M[i]), QMul(Q6, h[i])) >>]

EvalPiece(p, xi, q) ==
    LET t == QSub(q, xi) IN QAdd(p[1], QMul(t, QAdd(p[2], QMul(t, QAdd(p[3], QMul(t, p[4]))))))
D1Piece(p, xi, q) ==
    LET t == QSub(q, xi) IN QAdd(p[2], QMul(t, QAdd(QMul(Q2, p[3]), QMul(Q3, QMul(t, p[4])))))
D2Piece(p, xi, q) ==
    LET t == QSub(q, xi) IN QAdd(QMul(Q2, p[3]), QMul(Q6, QMul(t, p[4])))

(***************************************************************************)
(* The certificate: C02 (interpolation, C1, C2) and C03 (end conditions)    *)
(* as exact equalities on the pieces.                                       *)
(***************************************************************************)
EndOk(side, p, xi, q, other) ==
    CASE side.k = "SecondDeriv" -> D2Piece(p, xi, q) = side.v
      [] side.k = "FirstDeriv" -> D1Piece(p, xi, q) = side.v
      [] side.k = "NotAKnot" -> p[4] = other[4]      \* third derivative continuous across the neighbour knot

Certified(x, y, bc, P) ==
    LET n == Len(x) IN
    /\ \A i \in 1..(n - 1) : P[i][1] = y[i] /\ EvalPiece(P[i], x[i], x[i + 1]) = y[i + 1]
    /\ \A i \in 2..(n - 1) : /\ D1Piece(P[i - 1], x[i - 1], x[i]) = P[i][2]
                             /\ D2Piece(P[i - 1], x[i - 1], x[i]) = QMul(Q2, P[i][3])
    /\ IF bc.per THEN
            /\ y[1] = y[n]
            /\ D1Piece(P[n - 1], x[n - 1], x[n]) = P[1][2]
            /\ D2Piece(P[n - 1], x[n - 1], x[n]) = QMul(Q2, P[1][3])
       ELSE IF n = 3 /\ bc.l.k = "NotAKnot" /\ bc.r.k = "NotAKnot" THEN
            P[1][4] = Q0 /\ P[2][4] = Q0
       ELSE /\ EndOk(bc.l, P[1], x[1], x[1], IF n >= 3 THEN P[2] ELSE P[1])
            /\ EndOk(bc.r, P[n - 1], x[n - 1], x[n], IF n >= 3 THEN P[n - 2] ELSE P[n - 1])

(***************************************************************************)
(* The certified spline of a lane, with the quantities the tolerance needs. *)
(***************************************************************************)
SplineOf(x, y, bc) ==
    LET n == Len(x)
        M == Moments(x, y, bc)
        P == Pieces(x, y, M)
        h == Steps(x)
        k == [i \in 1..n |-> IF i < n THEN P[i][2] ELSE D1Piece(P[n - 1], x[n - 1], x[n])]
        kh == [i \in 1..(n - 1) |-> QMul(QMax(QAbs(k[i]), QAbs(k[i + 1])), h[i])]
        lip == [i \in 1..(n - 1) |->
                  QAdd(QAbs(P[i][2]), QAdd(QMul(Q2, QMul(QAbs(P[i][3]), h[i])),
                                           QMul(Q3, QMul(QAbs(P[i][4]), QSq(h[i])))))]
    IN  IF ~Certified(x, y, bc, P)
        THEN Assert(FALSE, <<"SplineRef: certificate failed (specification error)", x, y, bc>>)
        ELSE [P |-> P, k |-> k,
              scale0 |-> QAdd(QMaxAbsSeq(y), QMaxAbsSeq(kh)),   \* max|y| + max |k_i| h_i
              lip |-> QMaxAbsSeq(lip)]

\* value of the spline at a finite q using the clamped bracket i (end cubic outside the range, C06)
SplineAt(sp, x, i, q) == EvalPiece(sp.P[i], x[i], q)

(***************************************************************************)
(* Tolerance (Tol, DESIGN 2.4):  kappa * eps * Scale,                       *)
(*   Scale = (max|y| + max_i |k_i| h_i) * (1 + |tau|)^3,  kappa = 2^11      *)
(***************************************************************************)
Kappa == QPow2(11)
TolSpline(el, sp, tau) ==
    QMul(QMul(Kappa, Eps(el)), QMul(sp.scale0, QCube(QAdd(Q1, QAbs(tau)))))

\* C07: wrap q into [x1, xn) by an integer number of periods
Wrap(x, q) ==
    LET P == QSub(x[Len(x)], x[1])
        d == QSub(q, x[1])
    IN  QAdd(x[1], QSub(d, QMul(QFloor(QDiv(d, P)), P)))

\* extra tolerance for the rounding of the wrapped argument: L * delta
TolWrap(el, sp, x, q) ==
    LET P == QSub(x[Len(x)], x[1])
        delta == QMul(QMul(QI(4), Eps(el)), QAdd(QAbs(QSub(q, x[1])), QAdd(QAbs(x[1]), P)))
    IN  QMul(sp.lip, delta)
=============================================================================

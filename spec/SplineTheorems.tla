--------------------------- MODULE SplineTheorems ---------------------------
(***************************************************************************)
(* Theorems of the certified spline reference on bounded configurations:    *)
(*   C16  polynomials the method can represent are reproduced piecewise     *)
(*   C07  the periodic reference is a periodic C2 function; Wrap is exact   *)
(*   C15  unit changes (axis factor / shift, data factor, converted         *)
(*        boundary derivative values) and additivity, exactly               *)
(*   C06  the end cubic continues the spline (value and slopes agree at the *)
(*        range ends by the certificate)                                    *)
(***************************************************************************)
EXTENDS Naturals, Integers, Sequences, FiniteSets, TLC, SplineRef

CONSTANTS MaxN, Spacings

VARIABLES n, hs
vars == <<n, hs>>
Init == n \in 3..MaxN /\ hs \in [1..(n - 1) -> Spacings]
Next == UNCHANGED vars
Spec == Init /\ [][Next]_vars

X == [i \in 1..n |-> IF i = 1 THEN QI(-2) ELSE QAdd(QI(-2), QSumSeq([j \in 1..(i - 1) |-> QI(hs[j])]))]
Poly(c, x) == QAdd(c[1], QMul(x, QAdd(c[2], QMul(x, QAdd(c[3], QMul(x, c[4]))))))
D1(c, x) == QAdd(c[2], QMul(x, QAdd(QMul(Q2, c[3]), QMul(Q3, QMul(x, c[4])))))
D2(c, x) == QAdd(QMul(Q2, c[3]), QMul("6", QMul(x, c[4])))
Taylor(c, x) == <<Poly(c, x), D1(c, x), QAdd(c[3], QMul(Q3, QMul(x, c[4]))), c[4]>>
Cubic == <<QI(1), QI(-2), QDiv(Q1, Q2), QDiv(QI(-3), QI(4))>>
Quad == <<QI(1), QI(-2), QDiv(Q1, Q2), Q0>>
Line1 == <<QI(1), QI(-2), Q0, Q0>>
Sample(c) == [i \in 1..n |-> Poly(c, X[i])]
NaK == [k |-> "NotAKnot", v |-> Q0]
FD(c, x) == [k |-> "FirstDeriv", v |-> D1(c, x)]
SD(c, x) == [k |-> "SecondDeriv", v |-> D2(c, x)]
IsPoly(sp, c) == \A i \in 1..(n - 1) : sp.P[i] = Taylor(c, X[i])

\* C16
CubicReproduced ==
    LET sides(c) == {<<a, b>> : a \in {NaK, FD(c, X[1]), SD(c, X[1])}, b \in {NaK, FD(c, X[n]), SD(c, X[n])}}
    IN  \A s \in sides(Cubic) :
            (n = 3 /\ s[1].k = "NotAKnot" /\ s[2].k = "NotAKnot")          \* 3 points, NaK on both ends: the parabola, not the cubic
            \/ IsPoly(SplineOf(X, Sample(Cubic), [per |-> FALSE, l |-> s[1], r |-> s[2]]), Cubic)
ParabolaFor3 == n = 3 => IsPoly(SplineOf(X, Sample(Quad), [per |-> FALSE, l |-> NaK, r |-> NaK]), Quad)
NaturalReproducesLines ==
    IsPoly(SplineOf(X, Sample(Line1), [per |-> FALSE, l |-> [k |-> "SecondDeriv", v |-> Q0], r |-> [k |-> "SecondDeriv", v |-> Q0]]), Line1)

\* C07: the periodic reference has equal value, first and second derivative at both ends; Wrap is exact
PerData == [i \in 1..n |-> IF i = n THEN QI(3) ELSE QI(((i * i * 5) % 7) - 3 + (IF i = 1 THEN 6 - ((5 % 7) - 3) - 3 ELSE 0))]
PerBc == [per |-> TRUE, l |-> NaK, r |-> NaK]
PeriodicIsPeriodic ==
    LET y == [PerData EXCEPT ![1] = PerData[n]]
        sp == SplineOf(X, y, PerBc)
        P == QSub(X[n], X[1])
    IN  /\ EvalPiece(sp.P[n - 1], X[n - 1], X[n]) = sp.P[1][1]
        /\ D1Piece(sp.P[n - 1], X[n - 1], X[n]) = sp.P[1][2]
        /\ D2Piece(sp.P[n - 1], X[n - 1], X[n]) = QMul(Q2, sp.P[1][3])
        /\ \A k \in {-3, -1, 1, 2, 1000} : \A t \in {Q0, QDiv(Q1, Q3), QDiv(QI(5), Q2)} :
               LET q == QAdd(X[1], t)
                   far == QAdd(q, QMul(QI(k), P))
               IN  QLe(X[1], q) /\ QLt(q, X[n]) => Wrap(X, far) = q
        /\ Wrap(X, X[n]) = X[1]

\* C15 for the spline reference: axis factor c, shift s, data factor d, boundary derivative values converted
Units ==
    \A c \in {Q2, QDiv(Q1, "4")} : \A s \in {Q0, QI(5)} : \A d \in {QI(-2), QDiv(Q1, Q2)} :
        LET y == Sample(Cubic)
            bc == [per |-> FALSE, l |-> [k |-> "FirstDeriv", v |-> Q3], r |-> [k |-> "SecondDeriv", v |-> QI(-1)]]
            X2 == [i \in 1..n |-> QAdd(QMul(c, X[i]), s)]
            y2 == [i \in 1..n |-> QMul(d, y[i])]
            bc2 == [per |-> FALSE, l |-> [k |-> "FirstDeriv", v |-> QDiv(QMul(Q3, d), c)],
                    r |-> [k |-> "SecondDeriv", v |-> QDiv(QMul(QI(-1), d), QMul(c, c))]]
            a == SplineOf(X, y, bc)
            b == SplineOf(X2, y2, bc2)
        IN  \A i \in 1..(n - 1) : \A t \in {Q0, QDiv(Q1, Q3), Q1, QI(-2), QI(7)} :
                LET q == QAdd(X[i], QMul(t, QSub(X[i + 1], X[i])))
                IN  SplineAt(b, X2, i, QAdd(QMul(c, q), s)) = QMul(d, SplineAt(a, X, i, q))
\* additivity in (data, boundary values)
Additive ==
    LET y1 == Sample(Cubic)
        y2 == [i \in 1..n |-> QI((i * 3) % 5)]
        bcA == [per |-> FALSE, l |-> [k |-> "FirstDeriv", v |-> Q3], r |-> NaK]
        bcB == [per |-> FALSE, l |-> [k |-> "FirstDeriv", v |-> QI(-1)], r |-> NaK]
        bcS == [per |-> FALSE, l |-> [k |-> "FirstDeriv", v |-> Q2], r |-> NaK]
        a == SplineOf(X, y1, bcA)
        b == SplineOf(X, y2, bcB)
        sm == SplineOf(X, [i \in 1..n |-> QAdd(y1[i], y2[i])], bcS)
    IN  \A i \in 1..(n - 1) : \A j \in 1..4 : sm.P[i][j] = QAdd(a.P[i][j], b.P[i][j])
=============================================================================

SPECIFICATION Spec
POSTCONDITION Complete
CHECK_DEADLOCK FALSE

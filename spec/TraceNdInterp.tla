--------------------------- MODULE TraceNdInterp ---------------------------
(***************************************************************************)
(* Trace specification: validates calls recorded from the real crate        *)
(* (ndjson, one event per public call) against the system specification.    *)
(*                                                                          *)
(* Unlike a textbook acceptor the spec does not block on a mismatch: every  *)
(* event is consumed, every property predicate that applies to it is        *)
(* evaluated, and failures are appended to `bad`, so the rest of the trace  *)
(* is still examined.  Structural problems (unknown event, contents that    *)
(* do not decode) abort the run (tool error).  The verdict (bad, cov) is    *)
(* printed as JSON by the final `Finish` step.                              *)
(***************************************************************************)
EXTENDS Naturals, Integers, Sequences, FiniteSets, TLC, Json, IOUtils, NdContract

Rec == ndJsonDeserialize(IOEnv.TRACE)

VARIABLES
    l,      \* next line of the trace
    objs,   \* id -> built interpolator (configuration + certified reference model)
    memoP,  \* functional-dependence memo: set of <<family, key, bits>>
    memoK,  \* its keys: set of <<family, key>>
    bad,    \* violations found so far (sequence of records)
    cov     \* coverage class (string) -> count
vars == <<l, objs, memoP, memoK, bad, cov>>

MaxBadPerEvent == 4

----------------------------------------------------------------------------
\* helpers

Has(r, f) == f \in DOMAIN r

Bump(c, ks) ==   \* ks: sequence of strings (with repetitions)
    LET S == {ks[i] : i \in 1..Len(ks)}
        cnt(k) == Cardinality({i \in 1..Len(ks) : ks[i] = k})
    IN  [k \in (DOMAIN c) \cup S |->
            (IF k \in DOMAIN c THEN c[k] ELSE 0) + (IF k \in S THEN cnt(k) ELSE 0)]

V(props, sig, detail) == [line |-> l, props |-> props, sig |-> sig, detail |-> detail]

\* first n elements of a sequence of violations
Cap(s) == IF Len(s) > MaxBadPerEvent THEN SubSeq(s, 1, MaxBadPerEvent) ELSE s

SeqOfSet(S) ==   \* some enumeration of a finite set
    LET RECURSIVE F(_)
        F(T) == IF T = {} THEN <<>> ELSE LET e == CHOOSE e \in T : TRUE IN <<e>> \o F(T \ {e})
    IN F(S)

FilterSeq(s, P(_)) == SelectSeq(s, P)

(***************************************************************************)
(* Memo: each observation contributes pairs <<family, key, bits>>.  A key    *)
(* observed earlier with different bits is a functional-dependence          *)
(* violation of the properties owning the family.                           *)
(***************************************************************************)
MemoConflicts(pairs) ==
    LET newp == pairs \ memoP
        newk == {<<p[1], p[2]>> : p \in newp}
        old == {k \in newk : k \in memoK}
        dup == IF Cardinality(newk) = Cardinality(newp) THEN {}
               ELSE {k \in newk : Cardinality({p \in newp : p[1] = k[1] /\ p[2] = k[2]}) > 1}
    IN  old \cup dup

FamilyProps(fam) ==
    CASE fam = "obj" -> {"C09", "C17", "C19", "C14"}
      [] fam = "lin" -> {"C20", "C13", "C06", "C08"}
      [] fam = "bil" -> {"C20", "C13", "C06", "C08"}
      [] fam = "spl" -> {"C13", "C06", "C08"}
      [] OTHER -> {}

----------------------------------------------------------------------------
\* Build events

ColumnsOf(v, n, L) == [j \in 1..L |-> [i \in 1..n |-> v[(i - 1) * L + j]]]

DoB1(ev) ==
    LET el == ev.el
        dshape == ev.d.s
        rank == Len(dshape)
        n == IF rank >= 1 THEN dshape[1] ELSE 0
        L == Lanes(dshape, 1)
        xdec == IF ev.xdef = 1 THEN [i \in 1..n |-> QI(i - 1)] ELSE DecSeq(el, ev.x)
        inp == [rank |-> rank, n |-> n, x |-> xdec, st |-> ev.st, dshape |-> dshape,
                el |-> el, dv |-> ev.d.v]
        valid == Valid1(inp)
        kinds == ViolatedKinds1(inp)
        v10 == IF ev.out = "Panic" THEN <<V({"C10"}, "C10|build1|Panic", <<ev.msg>>)>>
               ELSE IF ev.out = "Ok" /\ ~valid THEN <<V({"C10"}, "C10|build1|invalid-accepted", <<kinds>>)>>
               ELSE IF ev.out # "Ok" /\ valid THEN <<V({"C10"}, "C10|build1|valid-rejected", <<ev.out, ev.msg>>)>>
               ELSE IF ev.out # "Ok" /\ ~(ErrKind(ev.out) \in kinds) THEN
                    <<V({"C10"}, "C10|build1|wrong-kind", <<ev.out, kinds>>)>>
               ELSE <<>>
        mk == ev.out = "Ok" /\ valid
        ydec == DecSeq(el, ev.d.v)
        o == [kind |-> "1D", el |-> el, n |-> n, L |-> L, dshape |-> dshape,
              x |-> xdec, xb |-> IF ev.xdef = 1 THEN xdec ELSE ev.x,
              y |-> ColumnsOf(ydec, n, L), yb |-> ColumnsOf(ev.d.v, n, L),
              st |-> ev.st, line |-> l]
    IN  /\ objs' = IF mk THEN (ev.id :> o) @@ objs ELSE objs
        /\ bad' = bad \o v10
        /\ cov' = Bump(cov, <<"B1|" \o ev.st.k \o "|" \o ev.out>>)
        /\ UNCHANGED <<memoP, memoK>>

----------------------------------------------------------------------------
\* Query events (1-D)

\* the elements the call produced: from the returned array, or from the caller's buffer window
ResultOf(ev) ==
    IF Has(ev, "r") THEN ev.r
    ELSE IF Has(ev, "buf") THEN [s |-> ev.buf.s, v |-> WindowContents(ev.buf)]
    ELSE [s |-> <<>>, v |-> <<>>]

JudgeLinElem(o, lane, qb, q, obsb) ==
    LET i == Bracket(o.x, q)
        y1 == o.y[lane][i]
        y2 == o.y[lane][i + 1]
        obs == QDecode(o.el, obsb)
        key == <<o.el, o.xb[i], o.xb[i + 1], o.yb[lane][i], o.yb[lane][i + 1], Drop(o.dshape, 1), lane, qb>>
    IN  IF ~IsFin(y1) \/ ~IsFin(y2) THEN [ok |-> TRUE, class |-> "nonfinite-bracket", memo |-> {<<"lin", key, obsb>>}]
        ELSE LET ref == IF o.el \in {"i32", "i64"} THEN LineInt(o.x[i], y1, o.x[i + 1], y2, q)
                        ELSE Line(o.x[i], y1, o.x[i + 1], y2, q)
                 tau == Tau(o.x[i], o.x[i + 1], q)
                 tol == IF o.el \in {"i32", "i64"} THEN Q0 ELSE TolLin(o.el, y1, y2, ref, tau)
                 good == IsFin(obs) /\ QLe(QAbs(QSub(obs, ref)), tol)
                 inr == InRange(o.x, q)
             IN [ok |-> good,
                 class |-> IF ~inr THEN "extrap" ELSE IF q = o.x[i] \/ q = o.x[i + 1] THEN "knot" ELSE "inner",
                 props |-> IF inr THEN {"C01"} ELSE {"C06"},
                 ref |-> ref, bracket |-> i,
                 memo |-> {<<"lin", key, obsb>>}]

DoQ1(ev) ==
    IF ev.id \notin DOMAIN objs
    THEN /\ cov' = Bump(cov, <<"Q1|orphan">>) /\ UNCHANGED <<objs, memoP, memoK, bad>>
    ELSE
    LET o == objs[ev.id]
        sk == o.st.k
        ex == o.st.ex = 1
        qs == DecSeq(o.el, ev.q.v)
        nq == Len(qs)
        L == o.L
        isInto == ev.en \in {"into", "array_into"}
        expShape == OutShape(ev.q.s, o.dshape, 1)
        bufOk == ~isInto \/ ev.buf.s = expShape
        allIn == \A i \in 1..nq : InRange(o.x, qs[i])
        allFin == \A i \in 1..nq : IsFin(qs[i])
        ranged == sk \in {"Linear", "Spline"}
        \* ---- outcome (C05, C06, C14)
        vOut ==
            IF ~bufOk THEN
                (IF ev.out = "Ok" THEN <<V({"C14"}, "C14|" \o ev.en \o "|wrong-shape-accepted", <<ev.buf.s, expShape>>)>> ELSE <<>>)
            ELSE IF ranged /\ ~ex THEN
                (IF allIn /\ ev.out # "Ok" THEN <<V({"C05"}, "C05|" \o ev.en \o "|in-range-rejected", <<ev.out, ev.pm>>)>>
                 ELSE IF ~allIn /\ ev.out = "Ok" THEN <<V({"C05"}, "C05|" \o ev.en \o "|out-of-range-answered", <<ev.q.v>>)>>
                 ELSE IF ~allIn /\ ev.out # "Err:OutOfBounds" THEN <<V({"C05"}, "C05|" \o ev.en \o "|not-OutOfBounds", <<ev.out, ev.pm>>)>>
                 ELSE <<>>)
            ELSE IF ranged /\ ex /\ allFin THEN
                (IF ev.out # "Ok" THEN <<V({"C06"}, "C06|" \o ev.en \o "|finite-rejected", <<ev.out, ev.pm>>)>> ELSE <<>>)
            ELSE <<>>
        res == ResultOf(ev)
        N == nq * L
        judge == ev.out = "Ok" /\ bufOk
        \* ---- shape (C09)
        vShape == IF judge /\ (res.s # expShape \/ Len(res.v) # N)
                  THEN <<V({"C09"}, "C09|" \o ev.en \o "|shape", <<res.s, expShape>>)>> ELSE <<>>
        judgeEl == judge /\ vShape = <<>> /\ sk = "Linear"
        J == IF judgeEl
             THEN [k \in 1..N |-> LET qi == ((k - 1) \div L) + 1 lane == ((k - 1) % L) + 1
                                   IN IF IsFin(qs[qi]) THEN JudgeLinElem(o, lane, ev.q.v[qi], qs[qi], res.v[k])
                                      ELSE [ok |-> TRUE, class |-> "nonfinite-query", memo |-> {}]]
             ELSE <<>>
        vEl == IF judgeEl
               THEN LET badK == SelectSeq([k \in 1..N |-> k], LAMBDA k : ~J[k].ok)
                    IN [i \in 1..Len(badK) |->
                          LET k == badK[i] qi == ((k - 1) \div L) + 1 lane == ((k - 1) % L) + 1
                          IN V(J[k].props, (IF "C01" \in J[k].props THEN "C01" ELSE "C06") \o "|" \o sk \o "|value",
                               <<"lane", lane, "q", ev.q.v[qi], "obs", res.v[k], "nearest", QRound(o.el, J[k].ref), "bracket", J[k].bracket>>)]
               ELSE <<>>
        \* ---- memo
        objPairs == IF judge /\ vShape = <<>>
                    THEN {<<"obj", <<ev.id, ((k - 1) % L) + 1, ev.q.v[((k - 1) \div L) + 1]>>, res.v[k]>> : k \in 1..N}
                    ELSE {}
        famPairs == IF judgeEl THEN UNION {J[k].memo : k \in 1..N} ELSE {}
        pairs == objPairs \cup famPairs
        confl == MemoConflicts(pairs)
        vMemo == LET cs == SeqOfSet(confl)
                 IN [i \in 1..Len(cs) |-> V(FamilyProps(cs[i][1]), "MEMO|" \o cs[i][1] \o "|" \o ev.en, <<cs[i][2]>>)]
        \* ---- buffer discipline (C14): cells outside the window untouched
        vBuf == IF isInto /\ ev.out = "Ok" /\ bufOk /\ ~OutsideUntouched(ev.buf)
                THEN <<V({"C14"}, "C14|" \o ev.en \o "|outside-written", <<>>)>> ELSE <<>>
        classes == <<"Q1|" \o sk \o "|" \o ev.en \o "|" \o ev.out>>
                   \o (IF judgeEl THEN [k \in 1..N |-> "EL|" \o sk \o "|" \o o.el \o "|" \o J[k].class] ELSE <<>>)
    IN  /\ bad' = bad \o Cap(vOut \o vShape \o vEl \o vMemo \o vBuf)
        /\ memoP' = memoP \cup pairs
        /\ memoK' = memoK \cup {<<p[1], p[2]>> : p \in pairs}
        /\ cov' = Bump(cov, classes)
        /\ UNCHANGED objs

----------------------------------------------------------------------------
DoReset(ev) ==
    /\ objs' = <<>>
    /\ memoP' = {}
    /\ memoK' = {}
    /\ cov' = Bump(cov, <<"Reset">>)
    /\ UNCHANGED bad

Init ==
    /\ l = 1
    /\ objs = <<>>
    /\ memoP = {}
    /\ memoK = {}
    /\ bad = <<>>
    /\ cov = <<>>

Step ==
    /\ l <= Len(Rec)
    /\ LET ev == Rec[l] IN
        CASE ev.ev = "Reset" -> DoReset(ev)
          [] ev.ev = "B1" -> DoB1(ev)
          [] ev.ev = "Q1" -> DoQ1(ev)
          [] OTHER -> Assert(FALSE, <<"unknown event", l, ev.ev>>)
    /\ l' = l + 1

Finish ==
    /\ l = Len(Rec) + 1
    /\ PrintT("VERDICT " \o ToJson([consumed |-> l - 1, total |-> Len(Rec), bad |-> bad, cov |-> cov]))
    /\ l' = l + 1
    /\ UNCHANGED <<objs, memoP, memoK, bad, cov>>

Next == Step \/ Finish
Spec == Init /\ [][Next]_vars

\* all lines consumed and the verdict printed: diameter = initial state + one per line + Finish
Complete == TLCGet("stats").diameter = Len(Rec) + 2
=============================================================================

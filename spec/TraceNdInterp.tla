--------------------------- MODULE TraceNdInterp ---------------------------
(***************************************************************************)
(* Trace specification: validates calls recorded from the real crate        *)
(* (ndjson, one event per public call) against the system specification.    *)
(*                                                                          *)
(* Unlike a textbook acceptor the spec does not block on a mismatch: every  *)
(* event is consumed, every property predicate that applies to it is        *)
(* evaluated, and failures are appended to `bad`, so the rest of the trace  *)
(* is still examined.  Structural problems (unknown event, contents that    *)
(* do not decode) abort the run (tool error).  The verdict (bad, cov) is    *)
(* printed as JSON by the final `Finish` step.                              *)
(***************************************************************************)
EXTENDS Naturals, Integers, Sequences, FiniteSets, TLC, Json, IOUtils, NdContract, SplineRef, BilinearRef

Rec == ndJsonDeserialize(IOEnv.TRACE)

VARIABLES
    l,      \* next line of the trace
    sigma   \* the specification state, one record (see below)
vars == <<l, sigma>>

(***************************************************************************)
(* The state is kept in ONE record variable so that every trace action is  *)
(* a single assignment sigma' = F(sigma, event), F a pure operator: TLC    *)
(* evaluates each LET definition of F once per event (with several primed  *)
(* assignments per action TLC re-evaluates shared definitions for every    *)
(* conjunct, which made validation super-linear in the batch size).        *)
(***************************************************************************)
objs  == sigma.objs     \* id -> built interpolator (configuration + certified reference model)
memoP == sigma.memoP    \* functional-dependence memo: set of <<family, key, bits>>
memoK == sigma.memoK    \* its keys: set of <<family, key>>
bad   == sigma.bad      \* violations found so far (sequence of records)
cov   == sigma.cov      \* coverage class (string) -> count
head  == sigma.head     \* strategy/element class -> largest observed error in per-mille of its tolerance band

MaxBadPerEvent == 4

----------------------------------------------------------------------------
\* helpers

Has(r, f) == f \in DOMAIN r

Bump(c, ks) ==   \* ks: sequence of strings (with repetitions)
    LET S == {ks[i] : i \in 1..Len(ks)}
        cnt(k) == Cardinality({i \in 1..Len(ks) : ks[i] = k})
    IN  [k \in (DOMAIN c) \cup S |->
            (IF k \in DOMAIN c THEN c[k] ELSE 0) + (IF k \in S THEN cnt(k) ELSE 0)]

\* err / tol in per mille (capped), for the head-room statistics
PerMille(err, tol) ==
    IF tol = Q0 THEN (IF err = Q0 THEN 0 ELSE 1000000)
    ELSE QToInt(QMin(QFloor(QDiv(QMul(err, "1000"), tol)), "1000000"))

MaxInt(a, b) == IF a > b THEN a ELSE b

HeadUp(h, k, v) == IF k \in DOMAIN h THEN [h EXCEPT ![k] = MaxInt(@, v)] ELSE (k :> v) @@ h

V(props, sig, detail) == [line |-> l, props |-> props, sig |-> sig, detail |-> detail]

\* first n elements of a sequence of violations
Cap(s) == IF Len(s) > MaxBadPerEvent THEN SubSeq(s, 1, MaxBadPerEvent) ELSE s

SeqOfSet(S) ==   \* some enumeration of a finite set
    LET RECURSIVE F(_)
        F(T) == IF T = {} THEN <<>> ELSE LET e == CHOOSE e \in T : TRUE IN <<e>> \o F(T \ {e})
    IN F(S)

FilterSeq(s, P(_)) == SelectSeq(s, P)

(***************************************************************************)
(* Memo: each observation contributes pairs <<family, key, bits>>.  A key    *)
(* observed earlier with different bits is a functional-dependence          *)
(* violation of the properties owning the family.                           *)
(***************************************************************************)
MemoConflicts(pairs) ==
    LET newp == pairs \ memoP
        newk == {<<p[1], p[2]>> : p \in newp}
        old == {k \in newk : k \in memoK}
        dup == IF Cardinality(newk) = Cardinality(newp) THEN {}
               ELSE {k \in newk : Cardinality({p \in newp : p[1] = k[1] /\ p[2] = k[2]}) > 1}
    IN  old \cup dup

FamilyProps(fam) ==
    CASE fam = "obj" -> {"C09", "C17", "C19", "C14"}
      [] fam = "lin" -> {"C20", "C13", "C06", "C08", "C19"}
      [] fam = "bil" -> {"C20", "C13", "C06", "C08", "C19"}
      [] fam = "spl" -> {"C13", "C06", "C08"}
      [] fam = "out" -> {"C17", "C09", "C19"}
      [] fam = "outc" -> {"C13"}
      [] fam = "err" -> {"C19"}
      [] fam = "errbuf" -> {"C19"}
      [] OTHER -> {}

\* outside the numeric envelope (DESIGN 2.4): a result within a factor 2^16 of the largest finite number of the
\* element type may overflow in a legitimate intermediate step - such elements are not judged
NearOverflow(el, ref) == QLt(QPow2(IF el = "f32" THEN 111 ELSE 1007), QAbs(ref))
\* ... and so are elements whose INTERMEDIATE terms reach that size although the result does not (a far query on an
\* axis in tiny units: the terms of the end polynomial cancel).  The tolerance is eps x (a bound of those terms), so
\* the test is on the tolerance itself.
BeyondEnvelope(el, tol) == QLt(QMul(Eps(el), QPow2(IF el = "f32" THEN 111 ELSE 1007)), tol)

\* the property that states which VALUE an in-range query returns: a rejected / panicking in-range call violates it too
ValueProp(sk) == CASE sk = "Linear" -> "C01" [] sk = "Spline" -> "C02" [] sk = "Bilinear" -> "C04" [] OTHER -> "C05"

----------------------------------------------------------------------------
\* violations of the bit-for-bit clause of C15 for a batch query on a related object
RelViolations(ev, o, res, twoD) ==
    IF ~Has(o, "rel") \/ o.rel.a \notin DOMAIN objs \/ ~Has(objs[o.rel.a], "last") THEN <<>>
    ELSE LET A == objs[o.rel.a]
             la == A.last
             r == o.rel
             nq == Len(ev.q.v)
             L == o.L
             paired == Len(la.q) = nq /\ Len(la.r) = Len(res.v) /\
                       \A i \in 1..nq :
                           LET qa == QDecode(o.el, la.q[i]) qb == QDecode(o.el, ev.q.v[i]) IN
                           IsFin(qa) /\ IsFin(qb) /\ qb = QAdd(QMul(r.c, qa), r.s) /\
                           (twoD => LET ya == QDecode(o.el, la.q2[i]) yb == QDecode(o.el, ev.q2.v[i]) IN
                                        IsFin(ya) /\ IsFin(yb) /\ yb = QAdd(QMul(r.c2, ya), r.s2))
             badK == SelectSeq([k \in 1..Len(res.v) |-> k],
                               LAMBDA k : LET va == QDecode(o.el, la.r[k]) vb == QDecode(o.el, res.v[k])
                                          IN IsFin(va) /\ IsFin(vb) /\ vb # QMul(r.d, va))
         IN IF ~paired THEN <<>>
            ELSE [i \in 1..Len(badK) |->
                     V({"C15"}, "C15|" \o o.st.k \o "|exact-unit-change-not-bit-identical",
                       <<"elem", badK[i], "a", la.r[badK[i]], "b", res.v[badK[i]], "c", r.c, "s", r.s, "d", r.d>>)]

----------------------------------------------------------------------------
\* C19: every recorded unchecked cast relabels identical types
CastViolations(ev) ==
    LET cs == ev.casts
        badI == SelectSeq([i \in 1..Len(cs) |-> i],
                          LAMBDA i : cs[i].from # cs[i].to \/ cs[i].fs # cs[i].ts \/ cs[i].fa # cs[i].ta)
    IN  [i \in 1..Len(badI) |-> V({"C19"}, "C19|cast|types-differ|" \o ev.en \o "|" \o ev.qtag,
                                   <<cs[badI[i]].from, cs[badI[i]].to, cs[badI[i]].fs, cs[badI[i]].ts>>)]

CastClasses(ev) ==
    IF Len(ev.casts) > 0 THEN <<"CAST|" \o ev.ev \o "|" \o ev.qtag \o "|n" \o ToString(Len(ev.casts))>>
    ELSE IF ev.en \in {"array", "array_into"} THEN <<"NOCAST|" \o ev.ev \o "|" \o ev.qtag>> ELSE <<>>

\* multiset equality of two sequences
SameBag(a, b) ==
    Len(a) = Len(b) /\ \A v \in {a[i] : i \in 1..Len(a)} :
        Cardinality({i \in 1..Len(a) : a[i] = v}) = Cardinality({i \in 1..Len(b) : b[i] = v})

(***************************************************************************)
(* C18: what a recording custom strategy observed during a query.           *)
(* o: the object; qb / q2b: query payloads; tshape: required target shape.  *)
(***************************************************************************)
CustomQueryViolations(ev, o, twoD, bufOk) ==
    LET cbs == ev.cb
        nq == Len(ev.q.v)
        fa == o.st.fa
        fails == fa >= 0 /\ fa < nq
        tshape == Drop(o.dshape, IF twoD THEN 2 ELSE 1)
        qOf(c) == IF twoD THEN <<c.q, c.q2>> ELSE <<c.q>>
        asked == [i \in 1..nq |-> IF twoD THEN <<ev.q.v[i], ev.q2.v[i]>> ELSE <<ev.q.v[i]>>]
        seen == [i \in 1..Len(cbs) |-> qOf(cbs[i])]
        vTok == IF fails THEN
                    (IF ev.out # "Err:OutOfBounds" \/ ev.em # ("verif-token-" \o ToString(fa))
                     THEN <<V({"C18"}, "C18|" \o ev.en \o "|strategy-error-not-propagated", <<ev.out, ev.em, fa>>)>> ELSE <<>>)
                ELSE (IF ev.out # "Ok" THEN <<V({"C18"}, "C18|" \o ev.en \o "|custom-query-failed", <<ev.out, ev.pm>>)>> ELSE <<>>)
        vQs == IF ~fails /\ ev.out = "Ok" /\ ~SameBag(asked, seen)
               THEN <<V({"C18"}, "C18|" \o ev.en \o "|queries-modified-or-miscounted", <<asked, seen>>)>>
               ELSE IF fails /\ \E i \in 1..Len(seen) : seen[i] \notin {asked[j] : j \in 1..nq}
               THEN <<V({"C18"}, "C18|" \o ev.en \o "|queries-modified", <<asked, seen>>)>>
               ELSE <<>>
        vTs == IF \E i \in 1..Len(cbs) : cbs[i].ts # tshape
               THEN <<V({"C18"}, "C18|" \o ev.en \o "|target-shape", <<tshape>>)>> ELSE <<>>
        \* accessors seen from inside the strategy
        accOk(c) ==
            IF twoD THEN
                LET qx == QDecode(o.el, c.q) qy == QDecode(o.el, c.q2) IN
                /\ c.x0 = o.xb[1] /\ c.y0 = o.yb[1]
                /\ c.row0 = [j \in 1..o.L |-> o.zb[j][1][1]]
                /\ (c.inr = 1) = InRange(o.x, qx) /\ (c.inr2 = 1) = InRange(o.y, qy)
                /\ (IsNaN(qx) \/ IsNaN(qy) \/ (IsBracket(o.x, qx, c.left + 1) /\ IsBracket(o.y, qy, c.left2 + 1)))
            ELSE
                LET qx == QDecode(o.el, c.q) IN
                /\ c.x0 = o.xb[1]
                /\ c.row0 = [j \in 1..o.L |-> o.yb[j][1]]
                /\ (c.inr = 1) = InRange(o.x, qx)
                /\ (IsNaN(qx) \/ IsBracket(o.x, qx, c.left + 1))
        vAcc == IF \E i \in 1..Len(cbs) : ~accOk(cbs[i])
                THEN <<V({"C18"}, "C18|" \o ev.en \o "|accessor", <<CHOOSE i \in 1..Len(cbs) : ~accOk(cbs[i])>>)>> ELSE <<>>
    IN  IF bufOk THEN vTok \o vQs \o vTs \o vAcc ELSE <<>>

\* what the recording strategy builder observed during build (1-D and 2-D)
CustomBuildViolations(ev, twoD, otherKinds, xb, yb) ==
    LET cbs == ev.cb
        validated == otherKinds = {}
        vCall == IF validated /\ Len(cbs) # 1 THEN <<V({"C18"}, "C18|build|strategy-not-invoked-once", <<Len(cbs)>>)>>
                 ELSE IF ~validated /\ Len(cbs) # 0 THEN <<V({"C18"}, "C18|build|strategy-invoked-with-invalid-input", <<otherKinds>>)>>
                 ELSE <<>>
        vArgs == IF validated /\ Len(cbs) = 1 /\
                    (cbs[1].x # xb \/ cbs[1].d # ev.d \/ (twoD /\ cbs[1].y # yb))
                 THEN <<V({"C18"}, "C18|build|strategy-inputs-modified", <<>>)>> ELSE <<>>
        vErr == IF validated /\ ev.st.fb = 1 /\ (ev.out # "Err:ValueError" \/ ev.msg # "verif-token-build")
                THEN <<V({"C18"}, "C18|build|strategy-error-not-propagated", <<ev.out, ev.msg>>)>> ELSE <<>>
    IN  vCall \o vArgs \o vErr

\* at most two reported conflicts per memo family and event (keeps every family visible)
MemoViolations(confl, en) ==
    LET fams == <<"obj", "out", "lin", "bil", "spl", "err", "errbuf", "outc">>
        perFam(f) == LET cs == SeqOfSet({k \in confl : k[1] = f})
                         n == IF Len(cs) > 2 THEN 2 ELSE Len(cs)
                     IN  [i \in 1..n |-> V(FamilyProps(f), "MEMO|" \o f \o "|" \o en, <<cs[i][2]>>)]
    IN  perFam(fams[1]) \o perFam(fams[2]) \o perFam(fams[3]) \o perFam(fams[4]) \o perFam(fams[5]) \o perFam(fams[6]) \o perFam(fams[7]) \o perFam(fams[8])

----------------------------------------------------------------------------
\* Build events

\* coverage class of a lane's boundary selection
BcClass(bc, n) ==
    "BC|" \o (IF bc.per THEN "Periodic" ELSE bc.l.k \o "-" \o bc.r.k) \o "|n" \o (IF n = 3 THEN "3" ELSE IF n = 4 THEN "4" ELSE "5+")

\* polynomial c[1] + c[2] x + c[3] x^2 + c[4] x^3 and its Taylor coefficients at a point
PolyAt(c, x) == QAdd(c[1], QMul(x, QAdd(c[2], QMul(x, QAdd(c[3], QMul(x, c[4]))))))
PolyTaylor(c, x) ==
    << PolyAt(c, x),
       QAdd(c[2], QMul(x, QAdd(QMul(Q2, c[3]), QMul(Q3, QMul(x, c[4]))))),
       QAdd(c[3], QMul(Q3, QMul(x, c[4]))),
       c[4] >>

BcFin(bc) == IsFin(bc.l.v) /\ IsFin(bc.r.v)

\* what identifies the lane's own boundary selection in memo keys (form + kinds + value payloads)
LaneBcKey(st, j) == IF st.bc = "Individual" THEN <<"Individual", st.rows[j]>> ELSE <<st.bc>>

ColumnsOf(v, n, L) == [j \in 1..L |-> [i \in 1..n |-> v[(i - 1) * L + j]]]

DoB1(ev) ==
    LET el == ev.el
        dshape == ev.d.s
        rank == Len(dshape)
        n == IF rank >= 1 THEN dshape[1] ELSE 0
        L == Lanes(dshape, 1)
        xdec == IF ev.xdef = 1 THEN [i \in 1..n |-> QI(i - 1)] ELSE DecSeq(el, ev.x)
        inp == [rank |-> rank, n |-> n, x |-> xdec, st |-> ev.st, dshape |-> dshape,
                el |-> el, dv |-> ev.d.v]
        valid == Valid1(inp)
        kinds == ViolatedKinds1(inp)
        v10 == IF ev.out = "Panic" THEN <<V({"C10"}, "C10|build1|Panic", <<ev.msg>>)>>
               ELSE IF ev.out = "Ok" /\ ~valid THEN <<V({"C10"}, "C10|build1|invalid-accepted", <<kinds>>)>>
               ELSE IF ev.out # "Ok" /\ valid THEN <<V({"C10"}, "C10|build1|valid-rejected", <<ev.out, ev.msg>>)>>
               ELSE IF ev.out # "Ok" /\ ~(ErrKind(ev.out) \in kinds) THEN
                    <<V({"C10"}, "C10|build1|wrong-kind", <<ev.out, kinds>>)>>
               ELSE <<>>
        mk == ev.out = "Ok" /\ valid
        ydec == DecSeq(el, ev.d.v)
        ycol == ColumnsOf(ydec, n, L)
        isSpl == ev.st.k = "Spline"
        bcs == IF isSpl THEN [j \in 1..L |-> LaneBc(ev.st, el, j)] ELSE <<>>
        spl == IF isSpl /\ mk /\ AllFin(xdec)
               THEN [j \in 1..L |-> IF AllFin(ycol[j]) /\ BcFin(bcs[j]) THEN SplineOf(xdec, ycol[j], bcs[j]) ELSE [none |-> TRUE]]
               ELSE <<>>
        o == [kind |-> "1D", el |-> el, n |-> n, L |-> L, dshape |-> dshape,
              x |-> xdec, xb |-> IF ev.xdef = 1 THEN [i \in 1..n |-> QRound(el, QI(i - 1))] ELSE ev.x,
              y |-> ycol, yb |-> ColumnsOf(ev.d.v, n, L),
              st |-> ev.st, line |-> l, bcs |-> bcs, bck |-> IF isSpl THEN [j \in 1..L |-> LaneBcKey(ev.st, j)] ELSE <<>>,
              spl |-> spl]
        \* C16: the build claims that lane j holds samples of the polynomial ev.poly[j]; the claim and the
        \* consequence "the reference interpolant IS that polynomial" are verified exactly (else tool error)
        polyOk == ~(Has(ev, "poly") /\ mk) \/
                  \A j \in 1..L :
                     LET c == DecSeq(el, ev.poly[j]) IN
                     /\ \A i \in 1..n : ycol[j][i] = PolyAt(c, xdec[i])
                     /\ IF isSpl THEN \A i \in 1..(n - 1) : spl[j].P[i] = PolyTaylor(c, xdec[i])
                        ELSE c[3] = Q0 /\ c[4] = Q0
        oo == IF Has(ev, "poly") THEN [poly |-> TRUE] @@ o ELSE o
        xbits == IF ev.xdef = 1 THEN [i \in 1..n |-> QRound(el, QI(i - 1))] ELSE ev.x
        v18 == IF ev.st.k = "Custom"
               THEN CustomBuildViolations(ev, FALSE, ViolatedKinds1([inp EXCEPT !.st = [@ EXCEPT !.fb = 0]]), xbits, <<>>)
               ELSE <<>>
    IN  IF Assert(polyOk, <<"harness error: polynomial claim of build event does not hold", l>>)
        THEN [sigma EXCEPT !.objs = IF mk THEN (ev.id :> oo) @@ objs ELSE objs,
                   !.bad = bad \o v10 \o v18,
                   !.cov = Bump(cov, <<"B1|" \o ev.st.k \o "|" \o ev.out>> \o (IF isSpl /\ mk THEN [j \in 1..L |-> BcClass(bcs[j], n)] ELSE <<>>)
                             \o (IF Has(ev, "poly") /\ mk THEN <<"POLY|" \o ev.st.k>> ELSE <<>>))]
        ELSE sigma

----------------------------------------------------------------------------
\* Query events (1-D)

\* the elements the call produced: from the returned array, or from the caller's buffer window
ResultOf(ev) ==
    IF Has(ev, "r") THEN ev.r
    ELSE IF Has(ev, "buf") THEN [s |-> ev.buf.s, v |-> WindowContents(ev.buf)]
    ELSE [s |-> <<>>, v |-> <<>>]

JudgeLinElem(o, lane, qb, q, obsb) ==
    LET i == Bracket(o.x, q)
        y1 == o.y[lane][i]
        y2 == o.y[lane][i + 1]
        obs == QDecode(o.el, obsb)
        key == <<o.el, o.xb[i], o.xb[i + 1], o.yb[lane][i], o.yb[lane][i + 1], Drop(o.dshape, 1), lane, qb>>
    IN  IF ~IsFin(y1) \/ ~IsFin(y2) THEN [ok |-> TRUE, class |-> "nonfinite-bracket", memo |-> {<<"lin", key, obsb>>}]
        ELSE LET ref == IF o.el \in {"i32", "i64"} THEN LineInt(o.x[i], y1, o.x[i + 1], y2, q)
                        ELSE Line(o.x[i], y1, o.x[i + 1], y2, q)
                 tau == Tau(o.x[i], o.x[i + 1], q)
                 tol == IF o.el \in {"i32", "i64"} THEN Q0 ELSE TolLin(o.el, y1, y2, ref, tau)
                 good == NearOverflow(o.el, ref) \/ BeyondEnvelope(o.el, tol) \/ (IsFin(obs) /\ QLe(QAbs(QSub(obs, ref)), tol))
                 inr == InRange(o.x, q)
             IN [ok |-> good,
                 class |-> IF ~inr THEN "extrap" ELSE IF q = o.x[i] \/ q = o.x[i + 1] THEN "knot" ELSE "inner",
                 props |-> (IF inr THEN {"C01"} ELSE {"C06"}) \cup (IF Has(o, "poly") THEN {"C16"} ELSE {}),
                 ref |-> ref, bracket |-> i, pm |-> IF IsFin(obs) THEN PerMille(QAbs(QSub(obs, ref)), tol) ELSE 1000000,
                 memo |-> {<<"lin", key, obsb>>}]

JudgeSplElem(o, lane, qb, q, obsb) ==
    LET sp == o.spl[lane]
        ex == o.st.ex = 1
        per == o.st.bc = "Periodic"
        inr == InRange(o.x, q)
        exKey == IF inr THEN "in" ELSE IF per THEN "wrap" ELSE "ex"
        key == <<o.el, o.xb, o.yb[lane], o.bck[lane], Drop(o.dshape, 1), lane, exKey, qb>>
        memo == {<<"spl", key, obsb>>}
    IN  IF Has(sp, "none") THEN [ok |-> TRUE, class |-> "nonfinite-lane", memo |-> memo]
        ELSE
        LET wrap == per /\ ~inr
            qq == IF wrap THEN Wrap(o.x, q) ELSE q
            i == Bracket(o.x, qq)
            ref == SplineAt(sp, o.x, i, qq)
            tau == Tau(o.x[i], o.x[i + 1], qq)
            tol == IF wrap THEN QAdd(TolSpline(o.el, sp, tau), TolWrap(o.el, sp, o.x, q)) ELSE TolSpline(o.el, sp, tau)
            obs == QDecode(o.el, obsb)
            good == NearOverflow(o.el, ref) \/ BeyondEnvelope(o.el, tol) \/ (IsFin(obs) /\ QLe(QAbs(QSub(obs, ref)), tol))
        IN  [ok |-> good,
             class |-> (IF wrap THEN "wrap" ELSE IF ~inr THEN "extrap" ELSE IF q = o.x[i] \/ q = o.x[i + 1] THEN "knot" ELSE "inner"),
             props |-> (IF wrap THEN {"C07"} ELSE IF ~inr THEN {"C06"} ELSE {"C02", "C03"}) \cup (IF Has(o, "poly") THEN {"C16"} ELSE {}),
             ref |-> ref, bracket |-> i, pm |-> IF IsFin(obs) THEN PerMille(QAbs(QSub(obs, ref)), tol) ELSE 1000000,
             memo |-> memo]

\* the recording strategy fills its target with the query value (1-D) / x + y (2-D): the element of the
\* result that belongs to query i must hold exactly that, which checks that the *right* target view was passed
CustomValues1(ev, o, res, go) ==
    IF ~go THEN <<>>
    ELSE LET N == Len(ev.q.v) * o.L
             badK == SelectSeq([k \in 1..N |-> k], LAMBDA k : res.v[k] # ev.q.v[((k - 1) \div o.L) + 1])
         IN IF Len(badK) > 0 THEN <<V({"C18", "C09"}, "C18|" \o ev.en \o "|wrong-target", <<badK[1]>>)>> ELSE <<>>

CustomValues2(ev, o, res, go) ==
    IF ~go THEN <<>>
    ELSE LET N == Len(ev.q.v) * o.L
             want(k) == LET qi == ((k - 1) \div o.L) + 1
                            a == QDecode(o.el, ev.q.v[qi]) b == QDecode(o.el, ev.q2.v[qi])
                        IN IF IsFin(a) /\ IsFin(b) THEN QDecode(o.el, QRound(o.el, QAdd(a, b))) ELSE "skip"
             badK == SelectSeq([k \in 1..N |-> k], LAMBDA k : want(k) # "skip" /\ QDecode(o.el, res.v[k]) # want(k))
         IN IF Len(badK) > 0 THEN <<V({"C18", "C09"}, "C18|" \o ev.en \o "|wrong-target", <<badK[1]>>)>> ELSE <<>>

DoQ1(ev) ==
    IF ev.id \notin DOMAIN objs
    THEN [sigma EXCEPT !.cov = Bump(cov, <<"Q1|orphan">>)]
    ELSE
    LET o == objs[ev.id]
        sk == o.st.k
        ex == o.st.ex = 1
        qs == DecSeq(o.el, ev.q.v)
        nq == Len(qs)
        L == o.L
        isInto == ev.en \in {"into", "array_into"}
        expShape == OutShape(ev.q.s, o.dshape, 1)
        bufOk == ~isInto \/ ev.buf.s = expShape
        allIn == \A i \in 1..nq : InRange(o.x, qs[i])
        allFin == \A i \in 1..nq : IsFin(qs[i])
        ranged == sk \in {"Linear", "Spline"}
        \* ---- outcome (C05, C06, C14)
        vOut ==
            IF ~bufOk THEN
                (IF ev.out = "Ok" THEN <<V({"C14"}, "C14|" \o ev.en \o "|wrong-shape-accepted", <<ev.buf.s, expShape>>)>> ELSE <<>>)
            ELSE IF ranged /\ ~ex THEN
                (IF allIn /\ ev.out # "Ok" THEN
                    (IF isInto /\ ev.out = "Panic" /\ ev.buf.lay # "C"
                     THEN <<V({"C13"}, "C13|" \o ev.en \o "|layout-rejected|" \o ev.buf.lay, <<ev.buf.s, ev.buf.st, ev.pm>>)>>
                     ELSE <<V({"C05", ValueProp(sk)}, "C05|" \o ev.en \o "|in-range-rejected", <<ev.out, ev.pm>>)>>)
                 ELSE IF ~allIn /\ ev.out = "Ok" THEN <<V({"C05"}, "C05|" \o ev.en \o "|out-of-range-answered", <<ev.q.v>>)>>
                 ELSE IF ~allIn /\ ev.out # "Err:OutOfBounds" THEN <<V({"C05"}, "C05|" \o ev.en \o "|not-OutOfBounds", <<ev.out, ev.pm>>)>>
                 ELSE <<>>)
            ELSE IF ranged /\ ex /\ allFin THEN
                (IF ev.out # "Ok" THEN
                    (IF isInto /\ ev.out = "Panic" /\ ev.buf.lay # "C"
                     THEN <<V({"C13"}, "C13|" \o ev.en \o "|layout-rejected|" \o ev.buf.lay, <<ev.buf.s, ev.buf.st, ev.pm>>)>>
                     ELSE <<V({"C06"} \cup (IF allIn THEN {ValueProp(sk)} ELSE {}) \cup (IF sk = "Spline" /\ o.st.bc = "Periodic" THEN {"C07"} ELSE {}),
                           "C06|" \o ev.en \o "|finite-rejected", <<ev.out, ev.pm>>)>>) ELSE <<>>)
            ELSE <<>>
        res == ResultOf(ev)
        N == nq * L
        judge == ev.out = "Ok" /\ bufOk
        \* ---- shape (C09)
        vShape == IF judge /\ (res.s # expShape \/ Len(res.v) # N)
                  THEN <<V({"C09"}, "C09|" \o ev.en \o "|shape", <<res.s, expShape>>)>> ELSE <<>>
        judgeEl == judge /\ vShape = <<>> /\ sk \in {"Linear", "Spline"}
        J == IF judgeEl
             THEN [k \in 1..N |-> LET qi == ((k - 1) \div L) + 1 lane == ((k - 1) % L) + 1
                                   IN IF IsFin(qs[qi])
                                      THEN (IF sk = "Linear" THEN JudgeLinElem(o, lane, ev.q.v[qi], qs[qi], res.v[k])
                                            ELSE JudgeSplElem(o, lane, ev.q.v[qi], qs[qi], res.v[k]))
                                      ELSE [ok |-> TRUE, class |-> "nonfinite-query", memo |-> {}]]
             ELSE <<>>
        vEl == IF judgeEl
               THEN LET badK == SelectSeq([k \in 1..N |-> k], LAMBDA k : ~J[k].ok)
                    IN [i \in 1..Len(badK) |->
                          LET k == badK[i] qi == ((k - 1) \div L) + 1 lane == ((k - 1) % L) + 1
                          IN V(J[k].props, sk \o "|value|" \o J[k].class,
                               <<"lane", lane, "q", ev.q.v[qi], "obs", res.v[k], "nearest", QRound(o.el, J[k].ref), "bracket", J[k].bracket>>)]
               ELSE <<>>
        \* ---- memo
        objPairs == IF judge /\ vShape = <<>>
                    THEN {<<"obj", <<ev.id, ((k - 1) % L) + 1, ev.q.v[((k - 1) \div L) + 1]>>, res.v[k]>> : k \in 1..N}
                    ELSE {}
        famPairs == IF judgeEl THEN UNION {J[k].memo : k \in 1..N} ELSE {}
        \* the outcome of a call is part of its answer: same interpolator, same query contents => same outcome,
        \* whatever the history, thread or entry point (calls with a wrongly shaped buffer are keyed apart)
        outPairs == {<<"out", <<ev.id, ev.q.v, bufOk>>, ev.out>>}
        \* C19: fast path and general path are indistinguishable also when a call fails: same error text and the same
        \* cells of the caller's buffer written before the failure (key without the query dimension type)
        errPairs == IF bufOk /\ ev.out = "Err:OutOfBounds" /\ ev.en \in {"array", "array_into"}
                    THEN {<<"err", <<ev.id, ev.en, ev.q.s, ev.q.v>>, ev.em>>}
                         \cup (IF isInto THEN {<<"errbuf", <<ev.id, ev.en, ev.q.s, ev.q.v>>, WindowContents(ev.buf)>>} ELSE {})
                    ELSE {}
        \* C13: whether a call is answered depends on the CONTENTS of the axis, the strategy and the query only - not on
        \* the memory layout or ownership of the axis, the data, the query or the buffer (key without object identity)
        outcPairs == IF ranged /\ bufOk /\ \A i \in 1..nq : ~IsNaN(qs[i])
                     THEN {<<"outc", <<o.el, o.xb, sk, o.st.ex, ev.q.v>>, ev.out>>} ELSE {}
        pairs == objPairs \cup famPairs \cup outPairs \cup errPairs \cup outcPairs
        confl == MemoConflicts(pairs)
        vMemo == MemoViolations(confl, ev.en)
        \* ---- buffer discipline (C14): cells outside the window untouched
        vBuf == IF isInto /\ ev.out = "Ok" /\ bufOk /\ ~OutsideUntouched(ev.buf)
                THEN <<V({"C14"}, "C14|" \o ev.en \o "|outside-written", <<>>)>> ELSE <<>>
        hk == sk \o "|" \o o.el
        hv == IF judgeEl
              THEN LET RECURSIVE M(_) M(k) == IF k > N THEN 0 ELSE MaxInt(IF Has(J[k], "pm") THEN J[k].pm ELSE 0, M(k + 1)) IN M(1)
              ELSE 0
        vCust == IF sk = "Custom" THEN CustomQueryViolations(ev, o, FALSE, bufOk) \o CustomValues1(ev, o, res, judge /\ vShape = <<>>) ELSE <<>>
        vCast == CastViolations(ev)
        classes == <<"Q1|" \o sk \o "|" \o ev.en \o "|" \o ev.out, "RANK|" \o ev.en \o "|" \o ev.qtag \o "|q" \o ToString(Len(ev.q.s)) \o "|d" \o ToString(Len(o.dshape))>>
                   \o CastClasses(ev)
                   \o (IF judgeEl THEN [k \in 1..N |-> "EL|" \o sk \o "|" \o o.el \o "|" \o J[k].class] ELSE <<>>)
        vRel == IF judge /\ vShape = <<>> /\ ev.en = "array" THEN RelViolations(ev, o, res, FALSE) ELSE <<>>
        keepLast == judge /\ vShape = <<>> /\ ev.en = "array"
        \* ---- system model: a script generated from NdInterp.tla carries the model's reply; the basis of this judge
        \* (outcome class, exact reference values) must coincide with it - a difference is an inconsistency between
        \* the two specifications (or the harness), reported as coverage class MODEL|differs and treated as a tool error
        judgeOut == IF ~bufOk THEN "Panic" ELSE IF ranged /\ ~ex THEN (IF allIn THEN "Ok" ELSE "Err:OutOfBounds")
                    ELSE IF ranged /\ ex /\ allFin THEN "Ok" ELSE "Unspecified"
        modelCls == IF ~Has(ev, "exp") THEN <<>>
                    ELSE IF ev.exp.out # judgeOut THEN <<"MODEL|differs|outcome">>
                    ELSE IF judgeEl /\ ev.exp.out = "Ok" /\ (Len(ev.exp.vals) # N \/ \E k \in 1..N : Has(J[k], "ref") /\ J[k].ref # ev.exp.vals[k])
                         THEN <<"MODEL|differs|value">>
                    ELSE <<"MODEL|agree|" \o ev.exp.out \o "|" \o ev.out>>
    IN  [sigma EXCEPT !.bad = bad \o vOut \o vShape \o Cap(vEl) \o vMemo \o vBuf \o Cap(vCust) \o Cap(vCast) \o Cap(vRel),
                   !.memoP = memoP \cup pairs,
                   !.memoK = memoK \cup {<<p[1], p[2]>> : p \in pairs},
                   !.cov = Bump(cov, classes \o modelCls \o (IF vRel # <<>> \/ (keepLast /\ Has(o, "rel")) THEN <<"RELQ|" \o sk>> ELSE <<>>)),
                   !.head = IF judgeEl THEN HeadUp(head, hk, hv) ELSE head,
                   !.objs = IF keepLast THEN [objs EXCEPT ![ev.id] = [last |-> [q |-> ev.q.v, r |-> res.v]] @@ o] ELSE objs]

----------------------------------------------------------------------------
\* 2-D build and query events

DoB2(ev) ==
    LET el == ev.el
        dshape == ev.d.s
        rank == Len(dshape)
        nx == IF rank >= 1 THEN dshape[1] ELSE 0
        ny == IF rank >= 2 THEN dshape[2] ELSE 0
        L == Lanes(dshape, 2)
        xdec == IF ev.xdef = 1 THEN [i \in 1..nx |-> QI(i - 1)] ELSE DecSeq(el, ev.x)
        ydec == IF ev.ydef = 1 THEN [i \in 1..ny |-> QI(i - 1)] ELSE DecSeq(el, ev.y)
        inp == [rank |-> rank, nx |-> nx, ny |-> ny, x |-> xdec, y |-> ydec, st |-> ev.st]
        valid == Valid2(inp)
        kinds == ViolatedKinds2(inp)
        v10 == IF ev.out = "Panic" THEN <<V({"C10"}, "C10|build2|Panic", <<ev.msg>>)>>
               ELSE IF ev.out = "Ok" /\ ~valid THEN <<V({"C10"}, "C10|build2|invalid-accepted", <<kinds>>)>>
               ELSE IF ev.out # "Ok" /\ valid THEN <<V({"C10"}, "C10|build2|valid-rejected", <<ev.out, ev.msg>>)>>
               ELSE IF ev.out # "Ok" /\ ~(ErrKind(ev.out) \in kinds) THEN
                    <<V({"C10"}, "C10|build2|wrong-kind", <<ev.out, kinds>>)>>
               ELSE <<>>
        mk == ev.out = "Ok" /\ valid
        zdec == DecSeq(el, ev.d.v)
        grid(v) == [j \in 1..L |-> [a \in 1..nx |-> [b \in 1..ny |-> v[((a - 1) * ny + (b - 1)) * L + j]]]]
        polyOk == ~(Has(ev, "poly") /\ mk) \/
                  \A j \in 1..L : LET c == DecSeq(el, ev.poly[j]) IN
                     \A a \in 1..nx : \A b \in 1..ny :
                        grid(zdec)[j][a][b] = QAdd(QAdd(c[1], QMul(c[2], xdec[a])), QAdd(QMul(c[3], ydec[b]), QMul(c[4], QMul(xdec[a], ydec[b]))))
        o == [kind |-> "2D", el |-> el, nx |-> nx, ny |-> ny, L |-> L, dshape |-> dshape,
              x |-> xdec, xb |-> IF ev.xdef = 1 THEN [i \in 1..nx |-> QRound(el, QI(i - 1))] ELSE ev.x,
              y |-> ydec, yb |-> IF ev.ydef = 1 THEN [i \in 1..ny |-> QRound(el, QI(i - 1))] ELSE ev.y,
              z |-> grid(zdec), zb |-> grid(ev.d.v), st |-> ev.st, line |-> l]
        oo == IF Has(ev, "poly") THEN [poly |-> TRUE] @@ o ELSE o
        xbits == IF ev.xdef = 1 THEN [i \in 1..nx |-> QRound(el, QI(i - 1))] ELSE ev.x
        ybits == IF ev.ydef = 1 THEN [i \in 1..ny |-> QRound(el, QI(i - 1))] ELSE ev.y
        v18 == IF ev.st.k = "Custom"
               THEN CustomBuildViolations(ev, TRUE, ViolatedKinds2([inp EXCEPT !.st = [@ EXCEPT !.fb = 0]]), xbits, ybits)
               ELSE <<>>
    IN  IF Assert(polyOk, <<"harness error: bilinear-function claim of build event does not hold", l>>)
        THEN [sigma EXCEPT !.objs = IF mk THEN (ev.id :> oo) @@ objs ELSE objs,
                   !.bad = bad \o v10 \o v18,
                   !.cov = Bump(cov, <<"B2|" \o ev.st.k \o "|" \o ev.out>> \o (IF Has(ev, "poly") /\ mk THEN <<"POLY|Bilinear">> ELSE <<>>))]
        ELSE sigma

JudgeBilElem(o, lane, qxb, qyb, qx, qy, obsb) ==
    LET i == Bracket(o.x, qx)
        j == Bracket(o.y, qy)
        zs == <<o.z[lane][i][j], o.z[lane][i][j + 1], o.z[lane][i + 1][j], o.z[lane][i + 1][j + 1]>>
        zbs == <<o.zb[lane][i][j], o.zb[lane][i][j + 1], o.zb[lane][i + 1][j], o.zb[lane][i + 1][j + 1]>>
        key == <<o.el, o.xb[i], o.xb[i + 1], o.yb[j], o.yb[j + 1], zbs, Drop(o.dshape, 2), lane, qxb, qyb>>
        memo == {<<"bil", key, obsb>>}
        obs == QDecode(o.el, obsb)
    IN  IF ~AllFin(zs) THEN [ok |-> TRUE, class |-> "nonfinite-bracket", memo |-> memo]
        ELSE IF o.el \in {"i32", "i64"} THEN
             LET z1 == LineInt(o.x[i], zs[1], o.x[i + 1], zs[3], qx)
                 z2 == LineInt(o.x[i], zs[2], o.x[i + 1], zs[4], qx)
                 ref == LineInt(o.y[j], z1, o.y[j + 1], z2, qy)
             IN [ok |-> obs = ref, class |-> "int", props |-> {"C04"}, ref |-> ref, bracket |-> <<i, j>>, pm |-> 0, memo |-> memo]
        ELSE
        LET ref == Blend(o.x[i], o.x[i + 1], o.y[j], o.y[j + 1], zs[1], zs[2], zs[3], zs[4], qx, qy)
            tx == Tau(o.x[i], o.x[i + 1], qx)
            ty == Tau(o.y[j], o.y[j + 1], qy)
            tol == TolBil(o.el, zs, ref, tx, ty)
            inr == InRange(o.x, qx) /\ InRange(o.y, qy)
            good == NearOverflow(o.el, ref) \/ BeyondEnvelope(o.el, tol) \/ (IsFin(obs) /\ QLe(QAbs(QSub(obs, ref)), tol))
            onx == qx = o.x[i] \/ qx = o.x[i + 1]
            ony == qy = o.y[j] \/ qy = o.y[j + 1]
        IN  [ok |-> good,
             class |-> (IF ~inr THEN (IF InRange(o.x, qx) THEN "extrap-y" ELSE IF InRange(o.y, qy) THEN "extrap-x" ELSE "extrap-xy")
                        ELSE IF onx /\ ony THEN "node" ELSE IF onx \/ ony THEN "edge" ELSE "inner"),
             props |-> (IF inr THEN {"C04"} ELSE {"C06"}) \cup (IF Has(o, "poly") THEN {"C16"} ELSE {}),
             ref |-> ref, bracket |-> <<i, j>>,
             pm |-> IF IsFin(obs) THEN PerMille(QAbs(QSub(obs, ref)), tol) ELSE 1000000, memo |-> memo]

DoQ2(ev) ==
    IF ev.id \notin DOMAIN objs
    THEN [sigma EXCEPT !.cov = Bump(cov, <<"Q2|orphan">>)]
    ELSE
    LET o == objs[ev.id]
        sk == o.st.k
        ex == o.st.ex = 1
        sameShape == ev.q.s = ev.q2.s
        qxs == DecSeq(o.el, ev.q.v)
        qys == DecSeq(o.el, ev.q2.v)
        nq == Len(qxs)
        L == o.L
        isInto == ev.en \in {"into", "array_into"}
        expShape == OutShape(ev.q.s, o.dshape, 2)
        bufOk == ~isInto \/ ev.buf.s = expShape
        allIn == sameShape /\ \A i \in 1..nq : InRange(o.x, qxs[i]) /\ InRange(o.y, qys[i])
        allFin == sameShape /\ \A i \in 1..nq : IsFin(qxs[i]) /\ IsFin(qys[i])
        ranged == sk = "Bilinear"
        vOut ==
            IF ~sameShape THEN
                (IF ev.out = "Ok" THEN <<V({"C14"}, "C14|" \o ev.en \o "|xy-shape-mismatch-accepted", <<ev.q.s, ev.q2.s>>)>> ELSE <<>>)
            ELSE IF ~bufOk THEN
                (IF ev.out = "Ok" THEN <<V({"C14"}, "C14|" \o ev.en \o "|wrong-shape-accepted", <<ev.buf.s, expShape>>)>> ELSE <<>>)
            ELSE IF ranged /\ ~ex THEN
                (IF allIn /\ ev.out # "Ok" THEN
                    (IF isInto /\ ev.out = "Panic" /\ ev.buf.lay # "C"
                     THEN <<V({"C13"}, "C13|" \o ev.en \o "|layout-rejected|" \o ev.buf.lay, <<ev.buf.s, ev.buf.st, ev.pm>>)>>
                     ELSE <<V({"C05", ValueProp(sk)}, "C05|" \o ev.en \o "|in-range-rejected", <<ev.out, ev.pm>>)>>)
                 ELSE IF ~allIn /\ ev.out = "Ok" THEN <<V({"C05"}, "C05|" \o ev.en \o "|out-of-range-answered", <<ev.q.v, ev.q2.v>>)>>
                 ELSE IF ~allIn /\ ev.out # "Err:OutOfBounds" THEN <<V({"C05"}, "C05|" \o ev.en \o "|not-OutOfBounds", <<ev.out, ev.pm>>)>>
                 ELSE <<>>)
            ELSE IF ranged /\ ex /\ allFin THEN
                (IF ev.out # "Ok" THEN
                    (IF isInto /\ ev.out = "Panic" /\ ev.buf.lay # "C"
                     THEN <<V({"C13"}, "C13|" \o ev.en \o "|layout-rejected|" \o ev.buf.lay, <<ev.buf.s, ev.buf.st, ev.pm>>)>>
                     ELSE <<V({"C06"} \cup (IF allIn THEN {ValueProp(sk)} ELSE {}), "C06|" \o ev.en \o "|finite-rejected", <<ev.out, ev.pm>>)>>) ELSE <<>>)
            ELSE <<>>
        res == ResultOf(ev)
        N == nq * L
        judge == ev.out = "Ok" /\ bufOk /\ sameShape
        vShape == IF judge /\ (res.s # expShape \/ Len(res.v) # N)
                  THEN <<V({"C09"}, "C09|" \o ev.en \o "|shape", <<res.s, expShape>>)>> ELSE <<>>
        judgeEl == judge /\ vShape = <<>> /\ sk = "Bilinear"
        J == IF judgeEl
             THEN [k \in 1..N |-> LET qi == ((k - 1) \div L) + 1 lane == ((k - 1) % L) + 1
                                   IN IF IsFin(qxs[qi]) /\ IsFin(qys[qi])
                                      THEN JudgeBilElem(o, lane, ev.q.v[qi], ev.q2.v[qi], qxs[qi], qys[qi], res.v[k])
                                      ELSE [ok |-> TRUE, class |-> "nonfinite-query", memo |-> {}]]
             ELSE <<>>
        vEl == IF judgeEl
               THEN LET badK == SelectSeq([k \in 1..N |-> k], LAMBDA k : ~J[k].ok)
                    IN [i \in 1..Len(badK) |->
                          LET k == badK[i] qi == ((k - 1) \div L) + 1 lane == ((k - 1) % L) + 1
                          IN V(J[k].props, sk \o "|value|" \o J[k].class,
                               <<"lane", lane, "qx", ev.q.v[qi], "qy", ev.q2.v[qi], "obs", res.v[k], "nearest", QRound(o.el, J[k].ref), "cell", J[k].bracket>>)]
               ELSE <<>>
        objPairs == IF judge /\ vShape = <<>>
                    THEN {<<"obj", <<ev.id, ((k - 1) % L) + 1, ev.q.v[((k - 1) \div L) + 1], ev.q2.v[((k - 1) \div L) + 1]>>, res.v[k]>> : k \in 1..N}
                    ELSE {}
        famPairs == IF judgeEl THEN UNION {J[k].memo : k \in 1..N} ELSE {}
        outPairs == {<<"out", <<ev.id, ev.q.v, ev.q2.v, ev.q.s = ev.q2.s, bufOk>>, ev.out>>}
        errPairs == IF bufOk /\ sameShape /\ ev.out = "Err:OutOfBounds" /\ ev.en \in {"array", "array_into"}
                    THEN {<<"err", <<ev.id, ev.en, ev.q.s, ev.q.v, ev.q2.v>>, ev.em>>}
                         \cup (IF isInto THEN {<<"errbuf", <<ev.id, ev.en, ev.q.s, ev.q.v, ev.q2.v>>, WindowContents(ev.buf)>>} ELSE {})
                    ELSE {}
        outcPairs == IF ranged /\ bufOk /\ sameShape /\ \A i \in 1..nq : ~IsNaN(qxs[i]) /\ ~IsNaN(qys[i])
                     THEN {<<"outc", <<o.el, o.xb, o.yb, sk, o.st.ex, ev.q.v, ev.q2.v>>, ev.out>>} ELSE {}
        pairs == objPairs \cup famPairs \cup outPairs \cup errPairs \cup outcPairs
        confl == MemoConflicts(pairs)
        vMemo == MemoViolations(confl, ev.en)
        vBuf == IF isInto /\ ev.out = "Ok" /\ bufOk /\ ~OutsideUntouched(ev.buf)
                THEN <<V({"C14"}, "C14|" \o ev.en \o "|outside-written", <<>>)>> ELSE <<>>
        hk == sk \o "|" \o o.el
        hv == IF judgeEl
              THEN LET RECURSIVE M(_) M(k) == IF k > N THEN 0 ELSE MaxInt(IF Has(J[k], "pm") THEN J[k].pm ELSE 0, M(k + 1)) IN M(1)
              ELSE 0
        vCust == IF sk = "Custom" THEN CustomQueryViolations(ev, o, TRUE, bufOk /\ sameShape) \o CustomValues2(ev, o, res, judge /\ vShape = <<>>) ELSE <<>>
        vCast == CastViolations(ev)
        classes == <<"Q2|" \o sk \o "|" \o ev.en \o "|" \o ev.out, "RANK|" \o ev.en \o "|" \o ev.qtag \o "|q" \o ToString(Len(ev.q.s)) \o "|d" \o ToString(Len(o.dshape))>>
                   \o CastClasses(ev)
                   \o (IF judgeEl THEN [k \in 1..N |-> "EL|" \o sk \o "|" \o o.el \o "|" \o J[k].class] ELSE <<>>)
        vRel == IF judge /\ vShape = <<>> /\ ev.en = "array" THEN RelViolations(ev, o, res, TRUE) ELSE <<>>
        keepLast == judge /\ vShape = <<>> /\ ev.en = "array"
        \* ---- system model: a script generated from NdInterp.tla carries the model's reply; the basis of this judge
        \* (outcome class, exact reference values) must coincide with it - a difference is an inconsistency between
        \* the two specifications (or the harness), reported as coverage class MODEL|differs and treated as a tool error
        judgeOut == IF ~sameShape THEN "Unspecified" ELSE IF ~bufOk THEN "Panic" ELSE IF ranged /\ ~ex THEN (IF allIn THEN "Ok" ELSE "Err:OutOfBounds")
                    ELSE IF ranged /\ ex /\ allFin THEN "Ok" ELSE "Unspecified"
        modelCls == IF ~Has(ev, "exp") THEN <<>>
                    ELSE IF ev.exp.out # judgeOut THEN <<"MODEL|differs|outcome">>
                    ELSE IF judgeEl /\ ev.exp.out = "Ok" /\ (Len(ev.exp.vals) # N \/ \E k \in 1..N : Has(J[k], "ref") /\ J[k].ref # ev.exp.vals[k])
                         THEN <<"MODEL|differs|value">>
                    ELSE <<"MODEL|agree|" \o ev.exp.out \o "|" \o ev.out>>
    IN  [sigma EXCEPT !.bad = bad \o vOut \o vShape \o Cap(vEl) \o vMemo \o vBuf \o Cap(vCust) \o Cap(vCast) \o Cap(vRel),
                   !.memoP = memoP \cup pairs,
                   !.memoK = memoK \cup {<<p[1], p[2]>> : p \in pairs},
                   !.cov = Bump(cov, classes \o modelCls \o (IF vRel # <<>> \/ (keepLast /\ Has(o, "rel")) THEN <<"RELQ|" \o sk>> ELSE <<>>)),
                   !.head = IF judgeEl THEN HeadUp(head, hk, hv) ELSE head,
                   !.objs = IF keepLast THEN [objs EXCEPT ![ev.id] = [last |-> [q |-> ev.q.v, q2 |-> ev.q2.v, r |-> res.v]] @@ o] ELSE objs]

----------------------------------------------------------------------------
\* direct calls of the public helpers and accessors

RelOf(a, b) == IF IsNaN(a) \/ IsNaN(b) THEN "UN" ELSE IF NLt(a, b) THEN "LT" ELSE IF NLt(b, a) THEN "GT" ELSE "EQ"

DoMono(ev) ==
    LET v == DecSeq(ev.el, ev.v)
        n == Len(v)
        rels == [i \in 1..(n - 1) |-> RelOf(v[i], v[i + 1])]
        hasNaN == \E i \in 1..n : IsNaN(v[i])
        want == MonoClass(rels)
        vv == IF ev.out = "Panic" THEN <<V({"C12"}, "C12|monotonic_prop|Panic", <<ev.v>>)>>
              ELSE IF hasNaN THEN
                   (IF ev.out \in {"Rising:1", "Rising:0"} THEN <<V({"C12"}, "C12|monotonic_prop|NaN-called-rising", <<ev.v, ev.out>>)>> ELSE <<>>)
              ELSE IF ev.out # want THEN <<V({"C12"}, "C12|monotonic_prop|misclassified", <<ev.v, ev.out, want>>)>>
              ELSE <<>>
    IN  [sigma EXCEPT !.bad = bad \o vv,
                   !.cov = Bump(cov, <<"MONO|" \o ev.el \o "|" \o ev.lay \o "|" \o (IF hasNaN THEN "NaN" ELSE want)>>)]

\* get_lower_index on a bare vector (C11); precondition of the property: strictly increasing axis, non-NaN query
DoLower(ev) ==
    LET x == DecSeq(ev.el, ev.x)
        q == QDecode(ev.el, ev.q)
        pre == StrictRising(x) /\ ~IsNaN(q) /\ AllFin(x)
        vv == IF ~pre THEN <<>>
              ELSE IF ev.out = "Panic" THEN <<V({"C11"}, "C11|get_lower_index|Panic", <<ev.x, ev.q, ev.pm>>)>>
              ELSE IF ~IsBracket(x, q, ev.res + 1) THEN <<V({"C11"}, "C11|get_lower_index|wrong-interval", <<ev.x, ev.q, ev.res>>)>>
              ELSE <<>>
        path == IF Len(ev.lk) > 0 THEN ev.lk[1].path ELSE "nohook"
        pos == IF NLe(q, x[1]) THEN "below" ELSE IF NLe(x[Len(x)], q) THEN "above" ELSE "inside"
    IN  [sigma EXCEPT !.bad = bad \o vv,
                   !.cov = Bump(cov, <<"LOWER|" \o ev.el \o "|" \o path \o "|" \o pos>>)]

\* index_point / is_in_range / get_index_left_of on a built interpolator (C18 accessors, C11)
DoAcc(ev) ==
    IF ev.id \notin DOMAIN objs THEN [sigma EXCEPT !.cov = Bump(cov, <<"ACC|orphan">>)]
    ELSE
    LET o == objs[ev.id]
        twoD == o.kind = "2D"
        vPoint ==
            IF ev.what # "point" THEN <<>>
            ELSE IF twoD THEN
                (IF ev.out = "Ok" /\ (ev.x # o.xb[ev.i + 1] \/ ev.y # o.yb[ev.j + 1] \/ ev.row # [k \in 1..o.L |-> o.zb[k][ev.i + 1][ev.j + 1]])
                 THEN <<V({"C18"}, "C18|index_point|wrong", <<ev.i, ev.j>>)>> ELSE <<>>)
            ELSE
                (IF ev.out = "Ok" /\ (ev.x # o.xb[ev.i + 1] \/ ev.row # [k \in 1..o.L |-> o.yb[k][ev.i + 1]])
                 THEN <<V({"C18"}, "C18|index_point|wrong", <<ev.i>>)>> ELSE <<>>)
        vRange ==
            IF ev.what # "range" THEN <<>>
            ELSE LET q == QDecode(o.el, ev.q) IN
                 (IF (ev.inr = 1) # InRange(o.x, q) THEN <<V({"C18", "C05"}, "C18|is_in_range|wrong", <<ev.q, ev.inr>>)>> ELSE <<>>)
                 \o (IF twoD /\ (ev.inr2 = 1) # InRange(o.y, QDecode(o.el, ev.q2)) THEN <<V({"C18", "C05"}, "C18|is_in_range|wrong-y", <<ev.q2, ev.inr2>>)>> ELSE <<>>)
                 \o (IF ~IsNaN(q) /\ (~twoD \/ ~IsNaN(QDecode(o.el, ev.q2))) /\ AllFin(o.x) /\ (ev.left < 0 \/ ~IsBracket(o.x, q, ev.left + 1))
                      THEN <<V({"C11", "C18"}, "C11|get_index_left_of|wrong-interval", <<ev.q, ev.left>>)>> ELSE <<>>)
                 \o (IF twoD /\ ~IsNaN(q) /\ ~IsNaN(QDecode(o.el, ev.q2)) /\ AllFin(o.y) /\ (ev.left2 < 0 \/ ~IsBracket(o.y, QDecode(o.el, ev.q2), ev.left2 + 1))
                      THEN <<V({"C11", "C18"}, "C11|get_index_left_of|wrong-interval-y", <<ev.q2, ev.left2>>)>> ELSE <<>>)
    IN  [sigma EXCEPT !.bad = bad \o Cap(vPoint \o vRange),
                   !.cov = Bump(cov, <<"ACC|" \o ev.what \o "|" \o o.kind>>)]

DoMonoBatch(ev) ==
    LET its == ev.items
        judge(it) ==
            LET v == DecSeq(it.el, it.v)
                n == Len(v)
                rels == [i \in 1..(n - 1) |-> RelOf(v[i], v[i + 1])]
                hasNaN == \E i \in 1..n : IsNaN(v[i])
                want == MonoClass(rels)
            IN  [bad |-> IF it.out = "Panic" THEN "Panic"
                         ELSE IF hasNaN THEN (IF it.out \in {"Rising:1", "Rising:0"} THEN "NaN-called-rising" ELSE "")
                         ELSE IF it.out # want THEN "misclassified" ELSE "",
                 class |-> "MONO|" \o it.el \o "|" \o it.lay \o "|" \o (IF hasNaN THEN "NaN" ELSE want) \o (IF n - 1 > 9 THEN "|long" ELSE ""),
                 want |-> want]
        J == [i \in 1..Len(its) |-> judge(its[i])]
        badI == SelectSeq([i \in 1..Len(its) |-> i], LAMBDA i : J[i].bad # "")
        vv == [k \in 1..Len(badI) |-> V({"C12"}, "C12|monotonic_prop|" \o J[badI[k]].bad, <<its[badI[k]].v, its[badI[k]].out, J[badI[k]].want>>)]
    IN  [sigma EXCEPT !.bad = bad \o Cap(vv),
                   !.cov = Bump(cov, [i \in 1..Len(its) |-> J[i].class])]

DoLowerBatch(ev) ==
    LET x == DecSeq(ev.el, ev.x)
        n == Len(x)
        pre == StrictRising(x) /\ AllFin(x)
        its == ev.items
        judge(it) ==
            LET q == QDecode(ev.el, it.q)
            IN  [bad |-> IF ~pre \/ IsNaN(q) THEN ""
                         ELSE IF it.out = "Panic" THEN "Panic"
                         ELSE IF ~IsBracket(x, q, it.res + 1) THEN "wrong-interval" ELSE "",
                 class |-> "LOWER|" \o ev.el \o "|" \o it.path \o "|" \o
                           (IF IsNaN(q) THEN "nan" ELSE IF NLe(q, x[1]) THEN "below" ELSE IF NLe(x[n], q) THEN "above" ELSE "inside")
                           \o (IF it.guess = n - 1 THEN "|guess-last" ELSE "")]
        J == [i \in 1..Len(its) |-> judge(its[i])]
        badI == SelectSeq([i \in 1..Len(its) |-> i], LAMBDA i : J[i].bad # "")
        vv == [k \in 1..Len(badI) |-> V({"C11"}, "C11|get_lower_index|" \o J[badI[k]].bad,
                                          <<IF n <= 12 THEN ev.x ELSE <<"len", n>>, its[badI[k]].q, its[badI[k]].res, its[badI[k]].pm>>)]
    IN  [sigma EXCEPT !.bad = bad \o Cap(vv),
                   !.cov = Bump(cov, [i \in 1..Len(its) |-> J[i].class] \o <<"LOWERLEN|" \o (IF n <= 40 THEN "le40" ELSE IF n <= 1000 THEN "le1000" ELSE "gt1000")>>)]

\* constructors / build on data of too low rank (C10: never a panic; build reports ShapeError)
DoBLow(ev) ==
    LET want == IF ev.what = "2D-rank1-static-new" THEN "Ok" ELSE "Err:ShapeError"
        vv == IF ev.out = "Panic" THEN <<V({"C10"}, "C10|constructor|Panic|" \o ev.what, <<ev.msg>>)>>
              ELSE IF ev.out # want THEN <<V({"C10"}, "C10|lowrank|wrong-outcome|" \o ev.what, <<ev.out, ev.msg>>)>>
              ELSE <<>>
    IN  [sigma EXCEPT !.bad = bad \o vv,
                   !.cov = Bump(cov, <<"BLOW|" \o ev.what \o "|" \o ev.out>>)]

(***************************************************************************)
(* C15: object b is declared to be object a in other units:                 *)
(*   x_b = c*x_a + s  (c a positive power of two), data_b = d * data_a      *)
(*   (d = +-2^k), boundary derivative values converted.  The claim is       *)
(*   verified exactly before it is used.                                    *)
(***************************************************************************)
IsPow2(c) == c # Q0 /\ \E k \in -64..64 : QAbs(c) = QPow2(k)

ScaledSide(sa, sb, c, d) ==
    /\ sa.k = sb.k
    /\ CASE sa.k = "FirstDeriv" -> sb.v = QDiv(QMul(sa.v, d), c)
         [] sa.k = "SecondDeriv" -> sb.v = QDiv(QMul(sa.v, d), QMul(c, c))
         [] OTHER -> TRUE

DoRel(ev) ==
    IF ev.a \notin DOMAIN objs \/ ev.b \notin DOMAIN objs
    THEN [sigma EXCEPT !.cov = Bump(cov, <<"REL|orphan">>)]
    ELSE
    LET A == objs[ev.a]
        B == objs[ev.b]
        el == A.el
        c == QDecode(el, ev.c)
        sft == QDecode(el, ev.s)
        d == QDecode(el, ev.d)
        twoD == A.kind = "2D"
        c2 == IF twoD THEN QDecode(el, ev.c2) ELSE Q1
        s2 == IF twoD THEN QDecode(el, ev.s2) ELSE Q0
        okX == Len(A.x) = Len(B.x) /\ \A i \in 1..Len(A.x) : B.x[i] = QAdd(QMul(c, A.x[i]), sft)
        okY == IF twoD THEN (Len(A.y) = Len(B.y) /\ \A i \in 1..Len(A.y) : B.y[i] = QAdd(QMul(c2, A.y[i]), s2)) ELSE TRUE
        okD == IF twoD
               THEN A.dshape = B.dshape /\ \A j \in 1..A.L : \A a \in 1..A.nx : \A b \in 1..A.ny :
                        (IsFin(A.z[j][a][b]) => B.z[j][a][b] = QMul(d, A.z[j][a][b]))
               ELSE A.dshape = B.dshape /\ \A j \in 1..A.L : \A i \in 1..A.n :
                        (IsFin(A.y[j][i]) => B.y[j][i] = QMul(d, A.y[j][i]))
        okS == A.st.k = B.st.k /\ A.st.ex = B.st.ex /\
               (A.st.k = "Spline" => \A j \in 1..A.L :
                    A.bcs[j].per = B.bcs[j].per /\ ScaledSide(A.bcs[j].l, B.bcs[j].l, c, d) /\ ScaledSide(A.bcs[j].r, B.bcs[j].r, c, d))
        okF == IsPow2(c) /\ QSign(c) > 0 /\ IsPow2(d) /\ IsPow2(c2) /\ QSign(c2) > 0
        rel == [a |-> ev.a, c |-> c, s |-> sft, d |-> d, c2 |-> c2, s2 |-> s2]
    IN  IF Assert(okX /\ okY /\ okD /\ okS /\ okF, <<"harness error: Rel claim does not hold", l, okX, okY, okD, okS, okF>>)
        THEN [sigma EXCEPT !.objs = [objs EXCEPT ![ev.b] = [rel |-> rel] @@ B],
                   !.cov = Bump(cov, <<"REL|" \o A.st.k \o (IF sft = Q0 /\ s2 = Q0 THEN "|scale" ELSE "|shift") \o (IF QSign(d) < 0 THEN "|neg" ELSE "|pos")>>)]
        ELSE sigma

----------------------------------------------------------------------------
DoReset(ev) == [sigma EXCEPT !.objs = <<>>, !.memoP = {}, !.memoK = {}, !.cov = Bump(cov, <<"Reset">>)]

Init ==
    /\ l = 1
    /\ sigma = [objs |-> <<>>, memoP |-> {}, memoK |-> {}, bad |-> <<>>, cov |-> <<>>, head |-> <<>>]

Step ==
    /\ l <= Len(Rec)
    /\ LET ev == Rec[l] IN
        sigma' = CASE ev.ev = "Reset" -> DoReset(ev)
                [] ev.ev = "B1" -> DoB1(ev)
                [] ev.ev = "Q1" -> DoQ1(ev)
                [] ev.ev = "Mono" -> DoMono(ev)
                [] ev.ev = "MonoBatch" -> DoMonoBatch(ev)
                [] ev.ev = "LowerBatch" -> DoLowerBatch(ev)
                [] ev.ev = "BLow" -> DoBLow(ev)
                [] ev.ev = "Rel" -> DoRel(ev)
                [] ev.ev = "Lower" -> DoLower(ev)
                [] ev.ev = "Acc" -> DoAcc(ev)
                [] ev.ev = "B2" -> DoB2(ev)
                [] ev.ev = "Q2" -> DoQ2(ev)
                [] OTHER -> Assert(FALSE, <<"unknown event", l, ev.ev>>)
    /\ l' = l + 1

Finish ==
    /\ l = Len(Rec) + 1
    /\ PrintT("VERDICT " \o ToJson([consumed |-> l - 1, total |-> Len(Rec), bad |-> bad, cov |-> cov, head |-> head]))
    /\ l' = l + 1
    /\ UNCHANGED sigma

Next == Step \/ Finish
Spec == Init /\ [][Next]_vars

\* all lines consumed and the verdict printed: diameter = initial state + one per line + Finish
Complete == TLCGet("stats").diameter = Len(Rec) + 2
=============================================================================

------------------------------ MODULE LookupInd ------------------------------
(***************************************************************************)
(* The binary-search loop of get_lower_index for an axis of ANY length      *)
(* (unbounded integers), checked with Apalache as an inductive invariant:   *)
(*   IndInit => IndInv            (--init=IndInit --inv=IndInv --length=0)  *)
(*   IndInv /\ Next => IndInv'    (--init=IndInv  --inv=IndInv --length=1)  *)
(*   IndInv => Safety             (--init=IndInv  --inv=Safety --length=0)  *)
(* The axis is abstracted as in module Lookup: knot i has value 2*i, the    *)
(* query is an integer position (even: at a knot, odd: between knots).      *)
(* The state after the clamps and the (arbitrary) initial guess is any      *)
(* state satisfying the search invariant.                                   *)
(***************************************************************************)
EXTENDS Integers

VARIABLES
    \* @type: Int;
    len,
    \* @type: Int;
    q,
    \* @type: Int;
    lo,
    \* @type: Int;
    hi,
    \* @type: Bool;
    done

\* after `if x <= self[0]` / `if x >= self[len-1]` returned early and the guess narrowed one end
Domain == len \in Int /\ q \in Int /\ lo \in Int /\ hi \in Int /\ done \in BOOLEAN

IndInit ==
    /\ Domain
    /\ len >= 2
    /\ q > 0 /\ q < 2 * (len - 1)
    /\ \E g \in 0..(len - 1) :
          IF 2 * g <= q THEN (lo = g /\ hi = len - 1 /\ g < len - 1) ELSE (lo = 0 /\ hi = g)
    /\ done = FALSE

IndInv ==
    /\ Domain
    /\ len >= 2
    /\ 0 <= lo /\ lo < hi /\ hi <= len - 1
    /\ 2 * lo <= q /\ q < 2 * hi
    /\ (done => lo + 1 >= hi)

Step ==
    /\ ~done /\ lo + 1 < hi
    /\ LET mid == ((hi - lo) \div 2) + lo
       IN  IF 2 * mid <= q THEN lo' = mid /\ hi' = hi ELSE hi' = mid /\ lo' = lo
    /\ UNCHANGED <<len, q, done>>
Exit == ~done /\ ~(lo + 1 < hi) /\ done' = TRUE /\ UNCHANGED <<len, q, lo, hi>>
Stutter == done /\ UNCHANGED <<len, q, lo, hi, done>>
Next == Step \/ Exit \/ Stutter

\* C11: the returned index brackets the query and is never the last index
Safety == done => (lo <= len - 2 /\ 2 * lo <= q /\ q < 2 * (lo + 1))
\* progress: every Step strictly shrinks the range (termination measure hi - lo)
\* (an action invariant: --init=IndInv --inv=Variant --length=1)
Variant == (~done /\ lo + 1 < hi) => (hi' - lo' < hi - lo /\ hi' - lo' >= 1)
=============================================================================

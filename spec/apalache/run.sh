#!/bin/sh
# Apalache: inductive invariant of the binary-search loop for axes of any length (C11, beyond the TLC bound)
cd "$(dirname "$0")"
rc=0
before=$(ls -d /tmp/SANY* 2>/dev/null | sort)
mkdir -p ../../build/apalache-tmp
export JAVA_TOOL_OPTIONS="-Djava.io.tmpdir=$(pwd)/../../build/apalache-tmp"
for step in "--init=IndInit --inv=IndInv --length=0" "--init=IndInv --inv=IndInv --length=1" "--init=IndInv --inv=Safety --length=0" "--init=IndInv --inv=Variant --length=1"; do
  out=$(timeout 900 apalache-mc check $step --out-dir=../../build/apalache-lookup LookupInd.tla 2>&1)
  if echo "$out" | grep -q "The outcome is: NoError"; then echo "APALACHE OK   $step"; else echo "APALACHE FAIL $step"; rc=1; fi
done
rm -rf ../../build/apalache-lookup ../../build/apalache-tmp
# Apalache's SANY importer leaves scratch directories in /tmp: remove the ones this run created
for d in $(ls -d /tmp/SANY* 2>/dev/null | sort); do echo "$before" | grep -qx "$d" || rm -rf "$d"; done
exit $rc

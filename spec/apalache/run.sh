#!/bin/sh
# Apalache: inductive invariant of the binary-search loop for axes of any length (C11, beyond the TLC bound)
cd "$(dirname "$0")"
rc=0
for step in "--init=IndInit --inv=IndInv --length=0" "--init=IndInv --inv=IndInv --length=1" "--init=IndInv --inv=Safety --length=0" "--init=IndInv --inv=Variant --length=1"; do
  out=$(timeout 900 apalache-mc check $step --out-dir=/tmp/apalache-lookup LookupInd.tla 2>&1)
  if echo "$out" | grep -q "The outcome is: NoError"; then echo "APALACHE OK   $step"; else echo "APALACHE FAIL $step"; rc=1; fi
done
rm -rf /tmp/apalache-lookup
exit $rc
